import json
import pickle
import struct

from ..coqterm import *
from ..gen_common import TOK, gen_re, lit, pr, re_coq, renumber, sample_match, tup

ID = "C16"
RUNNER = "C16"
COQ_IMPORTS = "Lib.Regex Model.Matcher Model.PickleVM Model.Reencode Check.C16check"
CASE_TYPE = "c16_case"
VERDICT = "c16_verdict"
EXPECTED = None
SHARD = 40
RULE = ("one case = one storage-schemas.conf (1-6 rules: catch-all, ^..$-anchored, prefix, suffix, tag patterns, generated regexes; priorities "
        "absent/equal/distinct/negative; old and new retention syntax; ini comments, quoting, key case; also files getSchemas must refuse) x 4-10 "
        "lines (tagged and untagged names, tags in any order, invalid tags, empty nodes, names of 255/256/300 bytes, every float spelling, timestamps "
        "around 255/65535/2^31/2^32, signs, fractions, wrong field counts, unicode white space). Per line the real destination.ParseDataPoint+Pickle "
        "and route.parseMetric run; per case a real pickle-mode destination into a loopback sink and a real grafanaNet route into a local HTTP server. "
        "Every emitted frame is also decoded by CPython's pickle.loads. non-trivial & distinct = distinct (rule list, line) pairs where at least two "
        "rules match the series name (selection matters)")
ASSUMPTIONS = ["strconv.ParseFloat, Go regexp (cross-checked per case against the executable engine), og-rek's encoder, msgp/snappy and metrictank's "
               "MetricData.Validate are library code: the model of them is validated by this differential run",
               "priorities stay below 2^30 in absolute value (priority<<32 does not overflow int64)"]
TRUSTED = ["oracle: strconv.ParseFloat, Go regexp.MatchString, CPython pickle.loads (reference unpickler)",
           "hook: route.VerifGetSchemas / route.VerifParseMetric (build tag verif)",
           "generator renders the rule list into storage-schemas.conf text (persister/ini.go is exercised, not modelled)"]

VALS = ["1", "0", "42", "1.5", "-0.0", "-3.25", "1e3", "1E-3", ".5", "5.", "nan", "NaN", "inf", "+Inf", "-inf", "0x1p-2", "1e400", "1_000",
        "abc", "0.1", "123456789.123456789", "1e-320", "4.9e-324", "3.14"]
TSS = ["0", "1", "254", "255", "256", "65534", "65535", "65536", "2147483647", "2147483648", "4294967295", "4294967296", "-1", "1.5", "1e9",
       "+5", "007", "99999999999999999999", "1500000000", "1600000000", "12x"]
RETS_OK = ["10:8640", "60:100,600:1000", "10s:1d", "1m:7d,10m:1y", "15s:7d , 1m:21d", "1s:1h", "5m:1w", "1h:2y", "30:10d", "1d:1y", "2w:4y"]
RETS_BAD = ["0:100", "1x:2d", "10s", "10:20:30", "", "abc:def"]
TAGS_OK = ["env=prod", "dc=us", "host=web1", "a=1", "a-b=2", "k=v=w", "z=y~", "n=\xc3\xa9"]
TAGS_BAD = ["novalue", "=x", "k=", "k=~v", "k!=v", "", "a^b=c", "u=\xff\xfe"]


def star_height(r):
    t = r[0]
    if t in ('star', 'plus', 'opt'):
        return 1 + star_height(r[2])
    if t == 'rep':
        return 1 + star_height(r[4])
    if t in ('cat', 'alt'):
        return max(star_height(r[1]), star_height(r[2]))
    if t == 'grp':
        return star_height(r[2])
    return 0


def gen_pattern(rng, simple=False):
    r = rng.random()
    nm = ".".join(rng.choice(TOK) for _ in range(rng.randrange(1, 4)))
    if r < .22:
        return ('cat', ('bol',), ('cat', lit(nm), ('eol',)))                        # ^foo\.bar$
    if r < .38:
        return ('cat', ('bol',), lit(nm + rng.choice(["", "."])))                    # ^foo\.
    if r < .5:
        return ('cat', lit(rng.choice(["." + rng.choice(TOK), rng.choice(TOK)])), ('eol',))   # \.count$
    if r < .55:
        return lit(";" + rng.choice(TAGS_OK[:5]))                                    # tag pattern
    if r < .6:
        # depends on the order of the tags: only the sorted presentation matches
        t = sorted(rng.sample(TAGS_OK[:5], 2), key=lambda x: x.encode("latin-1"))
        body = lit(";" + t[0] + ";" + t[1])
        return body if rng.random() < .5 else ('cat', body, ('eol',))
    if r < .66:
        return ('cat', lit(";"), ('eol',))                                           # ;$  (matches no series Graphite knows)
    if r < .72:
        return ('cat', ('bol',), ('cat', lit(nm), ('cat', lit(";"), ('star', True, ('any',)))))  # ^name;.*
    if r < .8:
        return ('cat', ('bol',), ('cat', ('plus', True, ('cls', True, [(59, 59)])), ('eol',)))    # ^[^;]+$  untagged only
    if simple:
        return ('cat', lit(rng.choice(TOK)), ('eol',))
    for _ in range(20):
        a = renumber(gen_re(rng, 1))
        if star_height(a) <= 1:          # nested quantifiers make the backtracking engine exponential on 50-byte names
            return a
    return lit(rng.choice(TOK))


def gen_rules(rng, simple=False):
    rules = []
    n = rng.randrange(1, 6)
    prio_mode = rng.choice(["none", "none", "equal", "distinct", "mixed"])
    for i in range(n):
        ast = gen_pattern(rng, simple)
        if prio_mode == "none":
            p = None
        elif prio_mode == "equal":
            p = 5
        elif prio_mode == "distinct":
            p = rng.choice([-5, 0, 1, 2, 10, 100, 2 ** 30 - 1])
        else:
            p = rng.choice([None, 0, 1, 1, -1, 7])
        rules.append({"name": "r%d" % i, "ast": ast, "prio": p, "ret": rng.choice(RETS_OK)})
    default = {"name": "default", "ast": ('star', True, ('any',)), "prio": rng.choice([None, None, 0, -10]) if prio_mode != "equal" else 5,
               "ret": rng.choice(RETS_OK)}
    k = rng.random()
    if k < .75:
        rules.append(default)
    elif k < .9:
        rules.insert(rng.randrange(0, len(rules) + 1), default)      # catch-all first / in the middle: shadows what follows at equal priority
    # else: no default -> getSchemas refuses
    if rng.random() < .08:
        rng.choice(rules)["ret"] = rng.choice(RETS_BAD)
    return rules


def render(rng, rules):
    out = []
    if rng.random() < .3:
        out.append("# storage-schemas.conf")
    for r in rules:
        out.append("[%s]" % r["name"] if rng.random() < .8 else "[ %s ]" % r["name"])
        q = rng.choice(["", "", "", '"', "'"])
        kp = rng.choice(["pattern", "pattern", "PATTERN", "Pattern"])
        eq = rng.choice([" = ", "=", " =", "= "])
        out.append(kp + eq + q + pr(tup(r["ast"])) + q)
        out.append("retentions" + rng.choice([" = ", "="]) + r["ret"])
        if r["prio"] is not None:
            out.append("priority = %d" % r["prio"])
        if rng.random() < .3:
            out.append(rng.choice(["", "; comment", "# x = y"]))
    return ("\n".join(out) + "\n").encode("latin-1")


def gen_name(rng, rules, allow_long=False):
    r = rng.random()
    if r < .45 and rules:
        # derived from a rule so that anchored rules get hits and near misses
        s = sample_match(rng, tup(rng.choice(rules)["ast"]))
        s = s.split(";")[0].replace(" ", "")
        if s:
            return s + rng.choice(["", "", "", ".x", "x"])
    nm = ".".join(rng.choice(TOK) for _ in range(rng.randrange(1, 5)))
    k = rng.random()
    if k < .05:
        nm = nm.replace(".", "..", 1)
    elif k < .08:
        nm = "." + nm
    elif k < .1:
        nm = nm + "."
    elif k < .13:
        nm = nm + "\xff"
    elif k < .16:
        nm = nm + ".caf\xc3\xa9"
    elif k < .2 and allow_long:
        # (only with the simple rule shapes: the backtracking engine is exponential on nested quantifiers)
        nm = nm + "." + "n" * rng.choice([240, 255 - len(nm) - 1, 256 - len(nm) - 1, 300])
    return nm


def gen_line(rng, rules, canonical=False, simple=False):
    name = gen_name(rng, rules, simple)
    tags = []
    if rng.random() < .45:
        for _ in range(rng.randrange(1, 4)):
            tags.append(rng.choice(TAGS_OK) if rng.random() < .85 else rng.choice(TAGS_BAD))
    elif rng.random() < .3:
        tags = rng.sample(TAGS_OK[:5], rng.randrange(2, 4))       # the tags the order-sensitive rules talk about, in wire order
    nwt = ";".join([name] + tags)
    val = rng.choice(VALS) if rng.random() < .7 else repr(rng.uniform(-1e6, 1e6))
    ts = rng.choice(TSS) if rng.random() < .6 else str(rng.randrange(1, 2 ** 32))
    sep = (lambda: " ") if canonical else (lambda: rng.choice([" ", " ", " ", "  ", "\t"]))
    k = rng.random()
    if k < .04:
        toks = [nwt, val]
    elif k < .08:
        toks = [nwt, val, ts, "extra"]
    else:
        toks = [nwt, val, ts]
    line = ("" if canonical else rng.choice(["", "", " "])) + toks[0]
    for t in toks[1:]:
        line += sep() + t
    line += "" if canonical else rng.choice(["", "", " ", "\n"])
    if not canonical and " " in line and rng.random() < .02:
        line = line.replace(" ", "\xc2\xa0", 1)          # NBSP also separates fields
        toks = None
    lb = line.encode("latin-1")
    probe = b""
    if toks is not None and len(toks) == 3:
        parts = nwt.encode("latin-1").split(b";")
        tg = sorted(parts[1:])
        probe = parts[0] if not tg else parts[0] + b";" + b";".join(tg)
    return lb.hex(), probe.hex()


def gen(rng, tier):
    n = 150 if tier == "quick" else 1500
    cases = []
    for i in range(n):
        simple = rng.random() < .35
        rules = gen_rules(rng, simple)
        lines, probes = [], []
        # lines that reach a route went through the table, which re-joins the fields with single spaces
        live = i % 5 == 0 or i % 4 == 1
        for _ in range(rng.randrange(4, 11)):
            l, p = gen_line(rng, rules, canonical=live, simple=simple)
            lines.append(l)
            probes.append(p)
        if i % 6 == 2:
            # the rule of highest priority looks at two tags in their sorted order; lines carry them in either order
            t = sorted(rng.sample(TAGS_OK[:5], 2), key=lambda x: x.encode("latin-1"))
            body = lit(";" + t[0] + ";" + t[1])
            rules.insert(0, {"name": "tagorder", "ast": ('cat', body, ('eol',)) if rng.random() < .5 else body, "prio": 50,
                             "ret": rng.choice(RETS_OK[:4])})
            for order in (t, t[::-1], t[::-1]):
                nm = ".".join(rng.choice(TOK) for _ in range(rng.randrange(1, 4)))
                lines.append(("%s;%s;%s %s %d" % (nm, order[0], order[1], rng.choice(VALS[:6]), rng.randrange(1, 2 ** 31))).encode("latin-1").hex())
                probes.append(("%s;%s;%s" % (nm, t[0], t[1])).encode("latin-1").hex())
        cases.append({"rules": rules, "schemas": render(rng, rules).hex(), "org": rng.choice([1, 1, 1, 7, 10010, 0]) if rng.random() < .9 else 1,
                      "lines": lines, "probes": probes, "patterns": [pr(tup(r["ast"])) for r in rules],
                      "live_pickle": i % 5 == 0, "live_gn": i % 4 == 1})
    return cases


def md_coq(m):
    return ("{| md_name := %s; md_tags := %s; md_val := %s; md_time := %s; md_org := %s; md_interval := %s |}"
            % (cbytes(bytes.fromhex(m["name"])), clist([cbytes(bytes.fromhex(t)) for t in m["tags"]], "bytes"), cN(int(m["val"])),
               cN(m["time"]) if m["time"] >= 0 else "0%N", cZ(m["org"]), cZ(m["interval"])))


def py_view(frame):
    """CPython's reading of the frame body as (name bytes, ts, float bits)"""
    try:
        v = pickle.loads(frame[4:], encoding="bytes")
        if not (isinstance(v, list) and len(v) == 1):
            return None
        (name, (ts, val)) = v[0]
        if not (isinstance(v[0], tuple) and isinstance(v[0][1], tuple) and isinstance(name, bytes) and isinstance(ts, int)
                and not isinstance(ts, bool) and isinstance(val, float)):
            return None
        return name, ts, struct.unpack(">Q", struct.pack(">d", val))[0]
    except Exception:
        return None


def to_coq(case, obs):
    rules = []
    for r in case["rules"]:
        a = tup(r["ast"])
        rules.append("{| r_rx := {| rx_src := %s; rx_ast := %s |}; r_prio := %s; r_ret := %s |}"
                     % (cbytes(pr(a)), re_coq(a), cZ(r["prio"] or 0), cbytes(r["ret"])))
    lines = []
    for lh, ph, o in zip(case["lines"], case["probes"], obs["lines"]):
        fr = bytes.fromhex(o["frame"]) if o["dp_ok"] else None
        pv = py_view(fr) if fr is not None else None
        md = o.get("md") if o["md_ok"] else None
        lines.append("{| l_bytes := %s; l_probe := %s; l_val := %s; l_match := %s; l_frame := %s; l_py := %s; l_md := %s; l_const_ok := %s |}"
                     % (cbytes(bytes.fromhex(lh)), cbytes(bytes.fromhex(ph)), copt(cN(int(o["val_bits"])) if o["val_ok"] else None, "N"),
                        clist([cbool(b) for b in o["match"]], "bool"), copt(cbytes(fr) if fr is not None else None, "bytes"),
                        copt(ctuple(cbytes(pv[0]), cZ(pv[1]), cN(pv[2])) if pv else None, "(bytes * Z * N)"),
                        copt(md_coq(md) if md else None, "mdata"),
                        cbool(md is None or (md["mtype"] == "gauge" and md["unit"] == "unknown" and md["time"] >= 0))))
    live = None
    if obs.get("live") and obs["live"]["slow"] == 0:
        live = ctuple(cbytes(bytes.fromhex(obs["live"]["received"])), cN(obs["live"]["bad_pickle"]))
    gn = None
    if obs.get("gn") is not None:
        gn = clist([md_coq(m) for m in obs["gn"]], "mdata")
    return ("{| k_rules := %s; k_load_ok := %s; k_org := %s; k_lines := %s; k_live := %s; k_gn := %s |}"
            % (clist(rules, "rule"), cbool(obs["load_ok"]), cZ(case["org"]), clist(lines, "c16_line"),
               copt(live, "(bytes * N)"), copt(gn, "(list mdata)")))


def nontrivial_key(case, obs):
    for l, o in zip(case["lines"], obs["lines"]):
        if sum(1 for b in o["match"] if b) >= 2 and o["md_ok"]:
            return json.dumps([case["patterns"], l])
    return None


def sample(case, obs):
    return {"schemas": bytes.fromhex(case["schemas"]).decode("latin-1")[:200], "org": case["org"],
            "lines": [(bytes.fromhex(l).decode("latin-1")[:60], o["dp_ok"], o["md_ok"], (o.get("md") or {}).get("interval"))
                      for l, o in list(zip(case["lines"], obs["lines"]))[:4]]}


def distribution(cases):
    import collections
    d = collections.Counter()
    for c in cases:
        d["rules=%d" % len(c["rules"])] += 1
        d["lines"] += len(c["lines"])
        d["tagged_lines"] += sum(1 for l in c["lines"] if b";" in bytes.fromhex(l))
        d["live_pickle"] += int(c["live_pickle"])
        d["live_gn"] += int(c["live_gn"])
        d["no_default"] += int(not any(p == ".*" for p in c["patterns"]))
    return dict(d)


def coverage_extra(cases, obss):
    import collections
    d = collections.Counter()
    for c, o in zip(cases, obss):
        d["load_ok"] += int(o["load_ok"])
        for l in o["lines"]:
            d["frames"] += int(l["dp_ok"])
            d["records"] += int(l["md_ok"])
            d["lines_matched_by_2plus_rules"] += int(sum(1 for b in l["match"] if b) >= 2)
    return {"observed": dict(d)}


def signature(case, obs, code, err):
    if err:
        return "C16:harness-error:" + err[:60]
    return "C16:code%d" % code


def shrink(case):
    n = len(case["lines"])
    for i in range(n):
        yield dict(case, lines=[case["lines"][i]], probes=[case["probes"][i]], live_pickle=False, live_gn=False)
    for i in range(n):
        yield dict(case, lines=case["lines"][:i] + case["lines"][i + 1:], probes=case["probes"][:i] + case["probes"][i + 1:])
    if case["live_pickle"] or case["live_gn"]:
        yield dict(case, live_pickle=False, live_gn=False)


MANIFEST = {
    "text": "Theorems (Props/C16.v): unpickling (a model of the pickle VM) the frame that the encoder model emits gives back [(name,(ts,value))] for "
            "every name, uint32 timestamp and float64, and the 4-byte prefix is the body length; ParseDataPoint accepts exactly three-field lines with "
            "a decimal uint32 timestamp; the metric record carries name/sorted tags/value/time/org and the interval of the selected rule; the selected "
            "rule is the matching rule of highest priority, earliest in the file among equals; invalid tags give no record. Tie: real "
            "ParseDataPoint+Pickle, parseMetric+getSchemas, a live pickle-mode destination, a live grafanaNet route; CPython decodes every frame.",
    "note": "The Kafka route calls the same parseMetric but is not run (needs a broker). ParseFloat/regexp/og-rek/metrictank Validate are libraries "
            "validated differentially. Trusted: Coq kernel+VM.",
}
