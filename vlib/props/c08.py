from ..coqterm import *
from .. import dqcase as D

ID = "C08"
RUNNER = "C08"
COQ_IMPORTS = D.COQ_IMPORTS
CASE_TYPE = "c08_case"
VERDICT = "c08_verdict"
EXPECTED = None
SHARD = 8
CONFIRM = True
RULE = ("cases = histories of 4-30 operations put(m) / get / close+reopen on a real nsqd.DiskQueue with the crash-point hook on: after every "
        "file-system mutation (segment write, fsync, metadata .tmp write, metadata rename, segment remove, .bad rename) the spool directory is "
        "copied; every distinct directory state (= every crash point) is then restored into a fresh directory, a new queue is opened on it and "
        "drained (60 ms idle / 1 s when Depth()>0). Checked per crash point: recover_ok (a contiguous run of the enqueued messages, starting "
        "no later than the first undelivered one and no earlier than the consumption point of the last completed sync, reaching at least the "
        "last synced message), then equality of directory and drain with the model. maxBytesPerFile in {1,5,20,64,200}, syncEvery in "
        "{1,2,3,5,1000}. non-trivial & distinct = distinct (history, crash point) pairs")
ASSUMPTIONS = ["crash model = process death: every completed system call is durable, the directory copy taken in the hook is what a restart would see",
               "power loss / torn writes are outside the property and the model"]
TRUSTED = ["oracle: os / bufio / fmt.Fscanf", "hook: nsqd.VerifCrashPoint (build tag verif)"]


def gen(rng, tier):
    n = 36 if tier == "quick" else 500
    cases = []
    for _ in range(n):
        c = D.gen_history(rng, rng.randrange(4, 31), reopen=True)
        c["crash"] = True
        cases.append(c)
    return cases


def to_coq(case, obs):
    snaps = [ctuple(D.fs_coq(s), clist([cbytes(bytes.fromhex(m)) for m in d], "bytes")) for s, d in zip(obs["snaps"], obs["drains"])]
    return "{| k_cfg := %s; k_ops := %s; k_snaps := %s |}" % (D.cfg_coq(case), D.ops_coq(case["ops"]), clist(snaps, "(fsys * list bytes)"))


def nontrivial_key(case, obs):
    import json
    return json.dumps(case) if len(obs["snaps"]) > 3 else None


_npoints = [0]


def sample(case, obs):
    return {"maxBytesPerFile": case["max"], "syncEvery": case["syncevery"], "ops": [(o["op"], len(o.get("m", "")) // 2) for o in case["ops"][:8]],
            "crash_points": len(obs["snaps"]), "labels": obs.get("labels", [])[:12],
            "recovered_at_some_points": [[bytes.fromhex(m).decode("latin-1")[:8] for m in d] for d in obs["drains"][:6]]}


def coverage_extra(cases, obs):
    return {"crash_points_recovered": sum(len(o["snaps"]) for o in obs), "fs_mutations_observed": sum(len(o.get("labels") or []) for o in obs)}


def distribution(cases):
    import collections
    d = collections.Counter()
    for c in cases:
        d["max=%d" % c["max"]] += 1
        d["syncevery=%d" % c["syncevery"]] += 1
        d["ops"] += len(c["ops"])
    return dict(d)


def signature(case, obs, code, err):
    if err:
        return "C08:harness-error:" + err[:60]
    return "C08:" + ("recovery-violates-property" if code == 2 else "recovery-differs-from-model")


def shrink(case):
    ops = case["ops"]
    for i in range(len(ops)):
        if len(ops) > 1:
            yield dict(case, ops=ops[:i] + ops[i + 1:])


MANIFEST = {
    "text": "Model: every file-system mutation of the I/O loop appends the resulting directory to a trace; reopening is NewDiskQueue on any trace entry. "
            "Theorems (Props/C08.v): for EVERY history of puts, gets, sync ticks and clean restarts (any maxBytesPerFile, any syncEvery, messages < 2^31 bytes: roll-over, "
            "over-sized messages, removal of consumed segments), every crash point (after each segment write, fsync, metadata temp write, metadata rename, "
            "segment removal) is reopened without panic and drains to a contiguous run E[sr..sw) of the enqueued messages, intact and in order, with sr not "
            "beyond what was handed to the consumer (C08_crash_at_any_point_all_segments; run invariant carrying an image for every recorded directory: "
            "closed files complete, write file possibly longer than the metadata says, depth possibly stale, the metadata's read file present or already "
            "removed — then recovery goes through handleReadError to the next file); the first-segment version; recovery from any single image; "
            "metadata round trip with stale .tmp bytes; frame round trip. "
            "Tie: crash-point hook in the real queue, every distinct directory state restored and drained by a real queue; recover_ok evaluated on "
            "the real drains, then compared with the model's directory and drain.",
    "note": "Crash model: process death with completed syscalls durable. What a recovered queue does with "
            "new puts after an unsynced tail was left behind is outside this property (noted in DESIGN.md). Trusted: Coq kernel+VM, OS file semantics.",
}
