from ..coqterm import *
from .. import gen_common as G, tablecase as T
from . import c01

ID = "C11"
RUNNER = "TABLE"
COQ_IMPORTS = T.COQ_IMPORTS
CASE_TYPE = T.CASE_TYPE
VERDICT = T.VERDICT
EXPECTED = None
SHARD = 25
MASK = T.MASK_COUNTERS | T.MASK_BAD | T.MASK_ROUTES | T.MASK_LINES | T.MASK_AGGS
RULE = ("cases = real table whose aggregations (real, mocked clock/ticks, writing to the table's own channel) include self-matching rules "
        "(output name matches the rule's own filter), rules chained by name and drop-raw rules, plus blacklist entries and rewriters that would "
        "match the aggregate names, and capture routes; streams of raw lines interleaved with ticks. Observed per event: counters, captured "
        "routes and texts, per-aggregation direction=in deltas (must stay 0 during ticks). Aggregate lines are predicted by the C10 model on "
        "binary64. non-trivial & distinct = distinct cases in which a tick emitted at least one aggregate line")
ASSUMPTIONS = ["as C03 (regex engine) and C10 (binary64 model of the processors)", "aggregators flush concurrently: per route the captured aggregate lines of one tick are compared as a multiset"]
TRUSTED = ["Coq kernel primitive floats", "oracle: Go regexp, strconv, fmt"]

WORD = ('plus', True, ('cls', False, [(97, 122), (48, 57)]))


def agg(rng, k, kind):
    """kind: self (output matches own filter), chain (output matches the next rule), plain"""
    if kind == "self":
        ast = G.renumber(('cat', ('bol',), ('cat', G.lit("s%d." % k), ('grp', 1, WORD))))
        fmt = "s%d.agg$1" % k           # s<k>.aggfoo matches ^s<k>\.([a-z0-9]+) again
    elif kind == "chain":
        ast = G.renumber(('cat', ('bol',), ('cat', G.lit("c%d." % k), ('grp', 1, WORD))))
        fmt = "c%d.$1" % (k + 1)        # feeds the name space of rule k+1
    else:
        ast = G.renumber(('cat', ('bol',), ('cat', G.lit("p."), ('grp', 1, WORD))))
        fmt = "out%d.$1" % k
    m = {"prefix": "", "notPrefix": "", "sub": "", "notSub": "", "regex": G.pr(ast), "regex_ast": ast, "notRegex": ""}
    if rng.random() < .3:
        m["notSub"] = rng.choice(["zz", "foo"])
    return {"m": m, "fun": rng.choice(["sum", "count", "max", "avg", "last"]), "outfmt": fmt, "cache": rng.random() < .5,
            "interval": rng.choice([1, 10]), "wait": rng.choice([0, 5]), "dropraw": rng.random() < .45}


def gen(rng, tier):
    n = 100 if tier == "quick" else 1000
    cases = []
    for _ in range(n):
        kinds = [rng.choice(["self", "chain", "chain", "plain"]) for _ in range(rng.choice([1, 2, 2, 3]))]
        aggs = []
        ck = 0
        for i, kd in enumerate(kinds):
            aggs.append(agg(rng, ck if kd == "chain" else i, kd))
            if kd == "chain":
                ck += 1
        c = {"ll": "none", "lm": "none", "order": False, "blacklist": [], "rewriters": [], "aggs": aggs, "events": [],
             "routes": [{"kind": "capture", "m": G.gen_matcher(rng, p_any=.5, p_regex=0), "dests": []} for _ in range(rng.choice([1, 2, 3]))]}
        # blacklist / rewriters that would hit the aggregate names if those went through the pipeline
        if rng.random() < .6:
            c["blacklist"].append({"prefix": rng.choice(["s0.agg", "c1.", "out", "s1.agg"]), "notPrefix": "", "sub": "", "notSub": "", "regex": "", "notRegex": ""})
        if rng.random() < .6:
            c["rewriters"].append({"old": rng.choice(["agg", "out", "c1", "c2"]), "new": "REWRITTEN", "not": "", "max": -1, "old_ast": None, "not_ast": None})
        now = 10000
        c["events"].append({"t": "now", "now": now})
        prefixes = []
        for a in aggs:
            src = a["m"]["regex"]
            prefixes.append(src[1:].split("\\.")[0] + ".")
        # "-x" and "" pass the pre-match (static prefix) but not the regex: drop-raw must let them through
        names = [p + w for p in prefixes for w in ("foo", "bar", "a1", "-x", "")] + ["other.x", "s0.aggfoo", "c1.foo", "out0.foo"]
        # every third case re-points route filters at run time (Table.UpdateRoute changes a route in place): the aggregate output
        # of later ticks must follow the filters as they are then, like the raw metrics do
        live_updates = len(cases) % 3 == 0
        for _ in range(rng.randrange(10, 30) if not live_updates else rng.randrange(25, 50)):
            r = rng.random()
            if live_updates and r < .12:
                c["events"].append({"t": "modroute", "ri": rng.randrange(len(c["routes"])), "m": G.gen_matcher(rng, p_any=.5, p_regex=0)})
            elif r < .7:
                ts = now + rng.randrange(-3, 12)
                c["events"].append({"t": "line", "b": ("%s %s %d" % (rng.choice(names), rng.choice(["1", "2", "0.5", "7"]), ts)).encode().hex()})
            elif r < .85:
                now += rng.randrange(0, 15)
                c["events"].append({"t": "tick", "now": now})
            else:
                now += rng.randrange(0, 5)
                c["events"].append({"t": "now", "now": now})
        c["events"].append({"t": "tick", "now": now + 100})
        c["events"].append({"t": "tick", "now": now + 200})
        cases.append(c)
    return cases


def to_coq(case, obs):
    return T.case_coq(case, obs, MASK)


def nontrivial_key(case, obs):
    import json
    for ev, o in zip(case["events"], obs.get("events") or []):
        if ev["t"] == "tick" and (o.get("routes") or o["cnt"][4]):
            return json.dumps([[a["m"]["regex"] for a in case["aggs"]], case["events"]])
    return None


def sample(case, obs):
    out = []
    for ev, o in zip(case["events"], obs.get("events") or []):
        if ev["t"] == "tick" and o.get("routes"):
            out = [bytes.fromhex(l).decode() for _, l in o["routes"]][:4]
            break
    return {"aggregations": [{"regex": a["m"]["regex"], "format": a["outfmt"], "dropRaw": a["dropraw"], "fun": a["fun"]} for a in case["aggs"]],
            "blacklist": [m["prefix"] for m in case["blacklist"]], "rewriters": [r["old"] for r in case["rewriters"]], "aggregate_lines_of_a_tick": out}


def distribution(cases):
    import collections
    d = collections.Counter()
    for c in cases:
        d["aggs=%d" % len(c["aggs"])] += 1
        for a in c["aggs"]:
            d["dropraw=%s" % a["dropraw"]] += 1
            d["self" if a["outfmt"].startswith("s") else "chain" if a["outfmt"].startswith("c") else "plain"] += 1
        d["ticks"] += sum(1 for e in c["events"] if e["t"] == "tick")
        d["lines"] += sum(1 for e in c["events"] if e["t"] == "line")
        d["route_filter_updates"] += sum(1 for e in c["events"] if e["t"] == "modroute")
    return dict(d)


def signature(case, obs, code, err):
    if err:
        return "C11:harness-error:" + err[:60]
    return "C11:aggregate-path-differs"


def shrink(case):
    evs = case["events"]
    for i in range(len(evs)):
        if len(evs) > 1:
            yield dict(case, events=evs[:i] + evs[i + 1:])
    for key in ("routes", "blacklist", "rewriters"):
        for i in range(len(case[key])):
            yield dict(case, **{key: case[key][:i] + case[key][i + 1:]})


MANIFEST = {
    "text": "Theorems (Props/C11.v): DispatchAggregate is a function of the routes only and feeds no aggregation; with no raw input an aggregator "
            "emits at most what its open buckets hold however many ticks follow (no loop/amplification); the first drop-raw aggregation whose "
            "complete filter takes the name stops the line (fed: it and the plain takers before it; nothing after, no route, no counter); every "
            "other metric is treated exactly as with drop-raw off. Tie: real table + real aggregators wired to the table's channel, self-matching "
            "and chained rules, blacklist/rewriters aimed at the aggregate names.",
    "note": "Trusted: Coq kernel+VM+PrimFloat; Go regexp/strconv/fmt as oracles; aggregate text predicted by the C10 model.",
}
