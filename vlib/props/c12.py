from ..coqterm import *

ID = "C12"
RUNNER = "C12"
COQ_IMPORTS = "Model.Plain Check.C12check"
CASE_TYPE = "c12_case"
VERDICT = "c12_verdict"
EXPECTED = None
CONFIRM = True          # live sockets with timing: a failure must repeat when the case is run again on its own
SHARD = 80
RULE = ("plain: input.NewPlain(d).Handle(r) with a scripted io.Reader — every cut position of short streams, random cuts, one-byte reads, empty "
        "reads (also 100+ in a row), data together with EOF and data together with a timeout error; lines of 0, 1, 65534-65537 bytes; CRLF, lone "
        "CR, empty lines, unterminated tails. udp: Listener.HandleData on one datagram; udp_live: a real listener and socket on 127.0.0.1 and [::1] "
        "with datagrams of 65507, 65508 and 65527 bytes (the largest IPv4 / IPv6 payloads; skipped and reported when the sandbox has no such address). amqp: a body through the real consumeAMQP loop (mock "
        "delivery channel), first-line lengths 4094-4098 and 9000. The dispatcher copies its argument at call time. "
        "non-trivial & distinct = distinct (stream, segmentation) pairs with at least one cut inside a line")
ASSUMPTIONS = ["bufio.Scanner / bufio.Reader.ReadLine behave like Model/Plain.v (this very run validates that)"]
TRUSTED = ["oracle: bufio.Scanner, bufio.Reader", "hook: input.VerifMockConnector (build tag verif)"]

FRAGS = ["foo.bar 1 1000", "a 1 2", "", "x", "metric.with.long.name.%d 3.14 1500000000", "\r", "b\r", " ", "a\rb"]


def gen_stream(rng):
    parts = []
    for _ in range(rng.randrange(0, 6)):
        f = rng.choice(FRAGS)
        if "%d" in f:
            f = f % rng.randrange(1000)
        parts.append(f + rng.choice(["\n", "\n", "\r\n", "\n\n"]))
    if rng.random() < .5:
        parts.append(rng.choice(["tail 1 2", "t", "t\r", "\r"]))
    return "".join(parts).encode("latin-1")


def chop(rng, s, mode):
    steps = []
    if mode == "bytes":
        cuts = list(range(1, len(s)))
    elif mode == "one":
        cuts = [rng.randrange(1, len(s))] if len(s) > 1 else []
    else:
        cuts = sorted(set(rng.randrange(1, len(s)) for _ in range(rng.randrange(0, 5)))) if len(s) > 1 else []
    prev = 0
    for c in cuts + [len(s)]:
        steps.append(s[prev:c])
        prev = c
    return steps


def script_of(rng, chunks, final):
    steps = []
    for i, ch in enumerate(chunks):
        if rng.random() < .15:
            steps.append({"t": "data", "b": ""})
        last = i == len(chunks) - 1
        if last and final in ("dataeof", "dataerr"):
            steps.append({"t": final, "b": ch.hex()})
        else:
            steps.append({"t": "data", "b": ch.hex()})
    if final in ("eof", "err"):
        steps.append({"t": final})
    return steps


def gen(rng, tier):
    n = 500 if tier == "quick" else 5000
    cases = []
    # every cut position of short streams
    for _ in range(40 if tier == "quick" else 300):
        s = gen_stream(rng)[:40]
        for cut in range(1, len(s)):
            cases.append({"kind": "plain", "script": script_of(rng, [s[:cut], s[cut:]], rng.choice(["eof", "dataeof", "err", "dataerr"]))})
    for _ in range(n):
        s = gen_stream(rng)
        mode = rng.choice(["bytes", "one", "rand", "rand"])
        chunks = chop(rng, s, mode) if s else [b""]
        cases.append({"kind": "plain", "script": script_of(rng, chunks, rng.choice(["eof", "eof", "dataeof", "err", "dataerr"]))})
    # token limit
    for L in (65534, 65535, 65536, 65537):
        for term in (b"\n", b"", b"\r\n"):
            big = b"a" * L + term + b"next 1 2\n"
            chunks = chop(rng, big, "rand")
            cases.append({"kind": "plain", "script": script_of(rng, chunks, "eof")})
    # empty reads
    for k in (99, 100, 101, 150):
        cases.append({"kind": "plain", "script": [{"t": "data", "b": b"a 1 2\nb".hex()}] + [{"t": "data", "b": ""}] * k + [{"t": "data", "b": b" 3 4\n".hex()}, {"t": "eof"}]})
    for _ in range(60 if tier == "quick" else 600):
        cases.append({"kind": "udp", "body": gen_stream(rng).hex()})
    # a real TCP listener with a read timeout T, a sender that pauses inside lines for less than T (after a burst, and after a quiet spell)
    T = 2000
    for delays in ([0, 800, 1500], [0, 100, 200, 1500]):
        parts = [b"verif.tcp.aaa 1 1\nverif.tcp.bb", b"b 2 2\nverif.tc", b"p.ccc 3 3\nverif.tcp.d", b"dd 4 4\n"][:len(delays)]
        if len(parts) == 3:
            parts[2] = b"p.ccc 3 3\n"
        cases.append({"kind": "tcp_live", "timeout_ms": T, "segs": [{"delay_ms": dl, "b": p.hex()} for dl, p in zip(delays, parts)]})
    # datagrams of the largest sizes an address family carries, through a real socket and consumeUdp's receive buffer
    for host, size in [("127.0.0.1", 65507), ("[::1]", 65507), ("[::1]", 65508), ("[::1]", 65527), ("127.0.0.1", rng.randrange(1, 3000))]:
        cases.append({"kind": "udp_live", "host": host, "body": sized_datagram(rng, size).hex()})
    # a burst of datagrams while the pipeline stalls inside the first one (back-pressure): the later datagrams arrive while
    # the first is still being scanned in 4 KiB steps; every datagram is still its own stream, in arrival order
    # (what waits in the socket stays far below the default receive buffer of 208 KiB, so nothing is dropped by the kernel)
    for sizes in ([6000, 300, 9000], [9000, 7000, 8000, 5000], [20000, 100, 100, 100, 12000], [4097, 4097, 4097],
                  [rng.randrange(4200, 9000) for _ in range(rng.choice([3, 4]))]):
        cases.append({"kind": "udp_burst", "stall_ms": 120,
                      "bodies": [sized_datagram(rng, sz, tag=b"d%d" % j).hex() for j, sz in enumerate(sizes)]})
    for L in (10, 4094, 4095, 4096, 4097, 4098, 8191, 8192, 9000):
        for term in (b"\n", b"\r\n", b""):
            cases.append({"kind": "amqp", "body": (b"m" * L + term + b"second 1 2\n" + rng.choice([b"", b"tail"])).hex()})
    for _ in range(60 if tier == "quick" else 600):
        cases.append({"kind": "amqp", "body": gen_stream(rng).hex()})
    return cases


ST = {"ok": 0, "err": 1, "toolong": 2, "noprogress": 3}
RR = {"data": "RData", "dataeof": "RDataEof", "dataerr": "RDataErr"}


def sized_datagram(rng, size, tag=b"udp"):
    out = b""
    i = 0
    while len(out) < size:
        out += b"verif.%s.%06d %d 1500000000\n" % (tag, i, rng.randrange(1000))
        i += 1
    out = out[:size]
    if rng.random() < .5 and size > 40:      # sometimes a newline as the very last byte
        out = out[:-1] + b"\n"
    return out


def to_coq(case, obs):
    lines = clist([cbytes(bytes.fromhex(l)) for l in obs["lines"]], "bytes")
    if case["kind"] == "plain":
        sc = []
        for st in case["script"]:
            if st["t"] in RR:
                sc.append("%s %s" % (RR[st["t"]], cbytes(bytes.fromhex(st.get("b", "")))))
            else:
                sc.append("REof" if st["t"] == "eof" else "RErr")
        return "KPlain %s %s %s" % (clist(sc, "rres"), lines, cN(ST[obs["status"]]))
    if case["kind"] == "tcp_live":
        sc = ["RData %s" % cbytes(bytes.fromhex(sg["b"])) for sg in case["segs"]] + ["REof"]
        return "KPlain %s %s %s" % (clist(sc, "rres"), lines, cN(ST["ok"]))
    if case["kind"] == "udp_live":
        if obs["status"] == "skip":          # no such loopback address / datagram size in this sandbox: nothing observed
            return "KUdp %s %s" % (cbytes(b""), clist([], "bytes"))
        return "KUdp %s %s" % (cbytes(bytes.fromhex(case["body"])), lines)
    if case["kind"] == "udp":
        return "KUdp %s %s" % (cbytes(bytes.fromhex(case["body"])), lines)
    if case["kind"] == "udp_burst":
        return "KUdpBurst %s %s" % (clist([cbytes(bytes.fromhex(b)) for b in case["bodies"]], "bytes"), lines)
    return "KAmqp %s %s" % (cbytes(bytes.fromhex(case["body"])), lines)


def nontrivial_key(case, obs):
    import json
    if case["kind"] == "plain":
        datas = [bytes.fromhex(s.get("b", "")) for s in case["script"]]
        if any(d and not d.endswith(b"\n") for d in datas[:-1]):
            return json.dumps(case["script"])
        return None
    return json.dumps(case)


def sample(case, obs):
    if case["kind"] == "plain":
        return {"reads": [(s["t"], bytes.fromhex(s.get("b", "")).decode("latin-1")[:30]) for s in case["script"][:6]],
                "lines": [bytes.fromhex(l).decode("latin-1")[:30] for l in obs["lines"][:6]], "status": obs["status"]}
    if case["kind"] == "udp_burst":
        return {"kind": "udp_burst", "datagram_sizes": [len(b) // 2 for b in case["bodies"]], "lines": len(obs["lines"])}
    return {"kind": case["kind"], "body_len": len(case["body"]) // 2, "lines": [len(l) // 2 for l in obs["lines"][:6]]}


def distribution(cases):
    import collections
    d = collections.Counter()
    for c in cases:
        d["kind=" + c["kind"]] += 1
        if c["kind"] == "plain":
            d["final=" + c["script"][-1]["t"]] += 1
            d["reads"] += len(c["script"])
    return dict(d)


def coverage_extra(cases, obss):
    live = [(c, o) for c, o in zip(cases, obss) if c["kind"] == "udp_live" and o]
    return {"udp_live": {"run": sum(1 for c, o in live if o["status"] != "skip"),
                         "skipped_no_such_address_or_size": ["%s/%d" % (c["host"], len(c["body"]) // 2) for c, o in live if o["status"] == "skip"],
                         "largest_datagram_received": max([len(c["body"]) // 2 for c, o in live if o["status"] != "skip"] or [0])}}


def signature(case, obs, code, err):
    if err:
        return "C12:harness-error:" + err[:60]
    return "C12:" + case["kind"] + ":lines-differ"


def shrink(case):
    if case["kind"] == "plain":
        sc = case["script"]
        for i in range(len(sc) - 1):
            yield dict(case, script=sc[:i] + sc[i + 1:])


MANIFEST = {
    "text": "Theorems (Props/C12.v): for every script of reads (all cut positions, empty reads, data+EOF, data+error) the lines handed on are the lines of "
            "the concatenated stream (chunk invariance, by induction over the script); streams whose raw lines stay below 64 KiB are never refused; "
            "UDP = one stream per datagram; AMQP = the same lines at any length. Tie: the real Plain.Handle with a scripted reader, "
            "Listener.HandleData, the real consumeAMQP loop.",
    "note": "bufio.Scanner and bufio.Reader are library code: the model of them is validated by this differential run. Trusted: Coq kernel+VM.",
}
