from ..coqterm import *
from .. import gen_common as G, tablecase as T

ID = "C01"
RUNNER = "TABLE"
COQ_IMPORTS = T.COQ_IMPORTS
CASE_TYPE = T.CASE_TYPE
VERDICT = T.VERDICT
EXPECTED = None
SHARD = 60
MASK = T.MASK_COUNTERS | T.MASK_ROUTES | T.MASK_DESTS
RULE = ("cases = a real table (table.New) with 0-3 blacklist entries, 0-2 literal rewriters, 0-2 aggregations (some drop-raw), 0-5 routes "
        "(recording wrappers around real sendAllMatch / sendFirstMatch / consistentHashing routes with 0-4 destinations on refused ports, or "
        "pure capture routes), filters drawn from a small alphabet so that overlap/shadowing is frequent, and 8-20 mostly valid lines whose "
        "names come from the same alphabet; observed: the five table counters, the routes that received the line (in order) and "
        "per-destination conn_down_no_spool deltas; non-trivial & distinct = distinct (table, name) pairs where at least one route or blacklist entry matched")
ASSUMPTIONS = ["Go regexp = Lib/Regex.v on the generated AST subset (each pattern/input pair is decided by both)",
               "strconv.ParseFloat outcomes are taken from the harness's own call (oracle)",
               "destination hand-off is observed through the per-destination conn_down_no_spool counter (destinations on refused ports, spool off)"]
TRUSTED = ["oracle: Go regexp (engine Lib/Regex.v), strconv.ParseFloat, crypto/md5"]

ADDRS = ["127.0.0.%d:1" % i for i in range(1, 9)] + ["127.0.0.%d:2:i%d" % (i, i) for i in range(1, 5)]


def gen_table(rng, tier, order=False, ll=None):
    c = {"ll": ll or rng.choice(["none", "medium", "medium", "strict"]), "lm": rng.choice(["medium", "none"]), "order": order,
         "blacklist": [G.gen_matcher(rng, p_any=0, p_regex=.3) for _ in range(rng.choice([0, 0, 1, 1, 2, 3]))],
         "rewriters": [], "aggs": [], "routes": [], "events": []}
    for _ in range(rng.choice([0, 0, 1, 2])):
        c["rewriters"].append({"old": rng.choice(G.TOK), "new": rng.choice(G.TOK + [""]), "not": rng.choice(["", "", rng.choice(G.TOK)]),
                               "max": rng.choice([-1, -1, 0, 1, 2])})
    for k in range(rng.choice([0, 0, 1, 2])):
        m = G.gen_matcher(rng, p_any=0, p_regex=0)
        a = G.gen_filter_re(rng)
        m["regex"], m["regex_ast"] = G.pr(a), a
        c["aggs"].append({"m": m, "fun": "sum", "outfmt": "aggout%d" % k, "cache": rng.random() < .5, "interval": 10, "wait": 100,
                          "dropraw": rng.random() < .4})
    used = set()
    for _ in range(rng.choice([0, 1, 2, 2, 3, 3, 4, 5])):
        kind = rng.choice(["capture", "sendAllMatch", "sendAllMatch", "sendFirstMatch", "sendFirstMatch", "consistentHashing"])
        r = {"kind": kind, "m": G.gen_matcher(rng), "dests": []}
        if kind != "capture":
            n = rng.choice([0, 1, 2, 2, 3, 4]) if kind != "consistentHashing" else rng.choice([1, 2, 3])
            for _ in range(n):
                k = len(used) + 1
                addr = rng.choice(["127.0.%d.%d:1" % (k // 200, k % 200 + 1), "127.0.%d.%d:2:i%d" % (k // 200, k % 200 + 1, k)])
                used.add(addr)
                r["dests"].append({"m": G.gen_matcher(rng, p_any=.3) if kind != "consistentHashing" else G.gen_matcher(rng, p_any=1), "addr": addr})
        c["routes"].append(r)
    return c


def all_matchers(c):
    ms = list(c["blacklist"]) + [a["m"] for a in c["aggs"]]
    for r in c["routes"]:
        ms.append(r["m"])
        ms += [d["m"] for d in r["dests"]]
    return ms


def gen(rng, tier):
    n = 60 if tier == "quick" else 600
    cases = []
    for k in range(n):
        c = gen_table(rng, tier)
        ms = all_matchers(c) or [G.gen_matcher(rng)]
        ts = 1000
        for _ in range(rng.randrange(8, 21)):
            name = G.name_for_matcher(rng, rng.choice(ms))
            for rw in c["rewriters"]:
                if rng.random() < .2:
                    name = rw["old"] + "." + name
            r = rng.random()
            if r < .06:
                line = name + " 1"                      # invalid: two fields
            elif r < .1:
                line = name + " x 5"                    # invalid value
            else:
                ts += 1
                line = "%s %s %d" % (name, rng.choice(["1", "2.5", "77", "1e3"]), ts)
            c["events"].append({"t": "line", "b": line.encode().hex()})
        cases.append(c)
    return cases


def to_coq(case, obs):
    return T.case_coq(case, obs, MASK)


def nontrivial_key(case, obs):
    hit = any(e["routes"] or e["cnt"][3] for e in obs["events"])
    if not hit:
        return None
    import json
    return json.dumps([case["routes"], case["blacklist"], [e["b"] for e in case["events"]]], sort_keys=True)


def sample(case, obs):
    return {"routes": [{"kind": r["kind"], "m": {k: v for k, v in r["m"].items() if v and not k.endswith("_ast")},
                        "dests": [{k: v for k, v in d["m"].items() if v and not k.endswith("_ast")} for d in r["dests"]]} for r in case["routes"]],
            "first_line": bytes.fromhex(case["events"][0]["b"]).decode("latin-1"), "observed_first": obs["events"][0]}


def distribution(cases):
    import collections
    d = collections.Counter()
    for c in cases:
        d["routes=%d" % len(c["routes"])] += 1
        for r in c["routes"]:
            d["kind=" + r["kind"]] += 1
        d["blacklist=%d" % len(c["blacklist"])] += 1
        d["lines"] += len(c["events"])
    return dict(d)


def signature(case, obs, code, err):
    if err:
        return "C01:harness-error:" + err[:60]
    return "C01:routing-differs"


def shrink(case):
    evs = case["events"]
    if len(evs) > 1:
        for i in range(len(evs)):
            yield dict(case, events=evs[:i] + evs[i + 1:])
    for key in ("routes", "blacklist", "rewriters", "aggs"):
        for i in range(len(case[key])):
            yield dict(case, **{key: case[key][:i] + case[key][i + 1:]})
    for ri, r in enumerate(case["routes"]):
        for di in range(len(r["dests"])):
            if r["kind"] == "consistentHashing" and len(r["dests"]) == 1:
                continue
            nr = dict(r, dests=r["dests"][:di] + r["dests"][di + 1:])
            yield dict(case, routes=case["routes"][:ri] + [nr] + case["routes"][ri + 1:])


MANIFEST = {
    "text": "Theorems (Props/C01.v) about Model.Table.dispatch for all tables and lines, regex engine abstract: the routes handed the line are exactly "
            "the matching ones, once each, in order; unroutable iff none; blacklisted lines go nowhere; send-all / send-first / hashing destination "
            "selection. Tie: real table.New with recording routes around real carbon routes; counters, captures and per-destination counters "
            "compared with the model on every line.",
    "note": "Trusted: Coq kernel+VM; Go regexp/strconv/md5 as oracles; the model is hand-written and tied by the per-run differential check; the cross-goroutine hand-off into a destination is C05/C06's subject.",
}
