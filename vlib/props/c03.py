from ..coqterm import *
from .. import gen_common as G, tablecase as T
from . import c01

ID = "C03"
RUNNER = "C03"
COQ_IMPORTS = T.COQ_IMPORTS + " Check.C03check"
CASE_TYPE = "c03_case"
VERDICT = "c03_verdict"
EXPECTED = None
SHARD = 80
RULE = ("two streams. (a) matcher: matcher.New(six options) on names derived from the options (a matching string, a near miss, the literal "
        "head cut short); regexes printed from random ASTs biased to ^literal heads followed by each quantifier/alternation shape, plus "
        "a hand-written list; Match/PreMatch/regexToPrefix compared with the model, and Match compared with the documented conjunction "
        "evaluated with Go's own regexp answers. (b) sites: real tables whose route/destination/aggregation filters are hit by lines "
        "whose value and timestamp contain the filter strings, cache on and off, repeated names. non-trivial & distinct = distinct "
        "(options, name) pairs with at least one non-empty option")
ASSUMPTIONS = ["Go regexp answers are taken as the meaning of regex / notRegex (oracle); Lib/Regex.v is only used at the table sites and is cross-checked against them",
               "soundness of the static prefix derived from a regex is a hypothesis of C03_match_is_conjunction, validated by this run's matcher stream, not proved for all regex ASTs"]
TRUSTED = ["oracle: Go regexp"]

HAND = ["^ab?c", "^foo|bar", "^a\\.*b", "^ab*", "^ab{0,1}c", "^ab+c", "^foo\\.bar", "^foo\\.(bar|baz)", "^(foo|bar)\\.", "foo$", "^a.c",
        "^ab??c", "^ab{2}", "^servers\\.[^.]+\\.cpu", "^a\\.b\\.?c", "^a-b_c\\.d*", "^foo\\.bar$|^baz", "^x1*", "^$", "^", "a|^b"]
HAND_NAMES = ["ac", "abc", "bar", "ab", "a", "abb", "abbc", "foo.bar", "foo.baz", "foo.", "bar.x", "a.c", "abc.d", "servers.web.cpu", "a.bc",
              "a.b.c", "a-b_c.", "a-b_c.dd", "baz", "x", "x1", "x11", "", "b", "foo"]


def parse_hand(src):
    return None


def gen_matcher_case(rng):
    j = G.gen_matcher(rng, p_any=0, p_regex=.7)
    if rng.random() < .25:
        j["regex"] = rng.choice(HAND)
        j.pop("regex_ast", None)
    if rng.random() < .15:
        j["notRegex"] = rng.choice(HAND)
        j.pop("notRegex_ast", None)
    names = set()
    for _ in range(6):
        names.add(G.name_for_matcher(rng, j))
    if j.get("notRegex_ast") is not None:
        names.add(G.sample_match(rng, G.tup(j["notRegex_ast"])))
    for _ in range(3):
        names.add(rng.choice(HAND_NAMES))
    # the literal head of the regex source, cut short / extended
    src = j["regex"]
    if src.startswith("^"):
        head = ""
        for ch in src[1:].replace("\\.", "."):
            if ch.isalnum() or ch in "_-.":
                head += ch
            else:
                break
        for k in (len(head), len(head) - 1, len(head) - 2):
            if k >= 0:
                names.add(head[:k])
                names.add(head[:k] + rng.choice(G.TOK))
    return {"kind": "matcher", "m": j, "names": [n.encode().hex() for n in sorted(names)]}


def esc(x):
    return x.replace(".", "\\.")


def gen_nested_case(rng):
    """all six options cut from one base name at nested positions: the combinations in which one option's text extends,
    equals or contradicts another's (prefix vs. the literal head of an anchored regex / notRegex, notPrefix vs. prefix, ...)"""
    base = ".".join(rng.choice(["servers", "tmp", "a", "cpu", "web1", "db", "x_y", "q-1"]) for _ in range(4))
    cuts = sorted(rng.sample(range(1, len(base)), 3))
    piece = lambda: base[:rng.choice(cuts + [len(base)])]
    j = {"prefix": "", "notPrefix": "", "sub": "", "notSub": "", "regex": "", "notRegex": ""}
    for k in rng.sample(list(j), rng.choice([2, 2, 3, 4])):
        if k in ("prefix", "notPrefix"):
            j[k] = piece()
        elif k in ("sub", "notSub"):
            a, b = sorted(rng.sample(range(len(base) + 1), 2))
            j[k] = base[a:b]
        else:
            j[k] = "^" + esc(piece()) + rng.choice(["", "", "\\.", ".*", "[a-z]+", "$"])
    names = {base, base + ".more", "z" + base}
    for c in cuts:
        names |= {base[:c], base[:c] + "x", base[:c] + ".", base[:c] + base[c:][::-1]}
    return {"kind": "matcher", "m": j, "names": [n.encode().hex() for n in sorted(names)]}


def gen_site_case(rng):
    c = c01.gen_table(rng, "quick", ll="none")
    c["kind"] = "table"
    # filters that could bite on value / timestamp digits
    for r in c["routes"]:
        for d in r["dests"]:
            if rng.random() < .4 and r["kind"] != "consistentHashing":
                d["m"][rng.choice(["sub", "notSub"])] = rng.choice(["1", "7", "77", " ", "00"])
        if rng.random() < .3:
            r["m"][rng.choice(["sub", "notSub"])] = rng.choice(["1", "7", "0"])
    for a in c["aggs"]:
        if rng.random() < .5:
            na = G.gen_filter_re(rng)
            a["m"]["notRegex"], a["m"]["notRegex_ast"] = G.pr(na), na
    ms = c01.all_matchers(c) or [G.gen_matcher(rng)]
    names = [G.name_for_matcher(rng, rng.choice(ms)) for _ in range(6)]
    ts = 1000
    for _ in range(rng.randrange(8, 16)):
        name = rng.choice(names) if rng.random() < .6 else G.name_for_matcher(rng, rng.choice(ms))
        ts += 1
        line = "%s %s %d" % (name, rng.choice(["1", "7", "77.5", "100"]), ts)
        c["events"].append({"t": "agg" if rng.random() < .3 else "line", "b": line.encode().hex()})
    return c


def gen(rng, tier):
    n = 500 if tier == "quick" else 6000
    m = 50 if tier == "quick" else 500
    cases = []
    # hand-written patterns x hand-written names always run
    for src in HAND:
        cases.append({"kind": "matcher", "m": {"prefix": "", "notPrefix": "", "sub": "", "notSub": "", "regex": src, "notRegex": ""},
                      "names": [x.encode().hex() for x in HAND_NAMES]})
        cases.append({"kind": "matcher", "m": {"prefix": "", "notPrefix": "", "sub": "", "notSub": "", "regex": "", "notRegex": src},
                      "names": [x.encode().hex() for x in HAND_NAMES]})
    cases += [gen_nested_case(rng) for _ in range(n // 4)]
    cases += [gen_matcher_case(rng) for _ in range(n)]
    cases += [gen_site_case(rng) for _ in range(m)]
    return cases


SITE_MASK = T.MASK_COUNTERS | T.MASK_ROUTES | T.MASK_DESTS | T.MASK_AGGS


def to_coq(case, obs):
    if case.get("kind") == "matcher":
        j = case["m"]
        has_ast = (not j["regex"] or j.get("regex_ast") is not None) and (not j["notRegex"] or j.get("notRegex_ast") is not None)
        jj = dict(j)
        # without an AST the engine is not consulted: a dummy AST keeps the source text
        def rx(src, ast):
            if not src:
                return "(@None rx)"
            return "(Some {| rx_src := %s; rx_ast := %s |})" % (cbytes(src), G.re_coq(G.tup(ast)) if ast is not None else "Eps")
        m = ("{| m_prefix := %s; m_notPrefix := %s; m_sub := %s; m_notSub := %s; m_regex := %s; m_notRegex := %s |}"
             % (cbytes(j["prefix"]), cbytes(j["notPrefix"]), cbytes(j["sub"]), cbytes(j["notSub"]),
                rx(j["regex"], j.get("regex_ast")), rx(j["notRegex"], j.get("notRegex_ast"))))
        if obs.get("rejected"):
            ob = []
        else:
            ob = [ctuple(ctuple(cbytes(bytes.fromhex(n)), ctuple(cbool(a), cbool(b))), ctuple(cbool(c), cbool(d)))
                  for n, a, b, c, d in zip(case["names"], obs["match"], obs["prematch"], obs["re"], obs["notre"])]
        return ("CM {| mc_m := %s; mc_has_ast := %s; mc_prefix := %s; mc_notprefix := %s; mc_obs := %s |}"
                % (m, cbool(has_ast), cbytes(bytes.fromhex(obs.get("prefix", ""))), cbytes(bytes.fromhex(obs.get("notprefix", ""))),
                   clist(ob, "m_obs")))
    return "CT " + T.case_coq(case, obs, SITE_MASK)


def discard(case, obs):
    # a pattern Go's regexp rejects never becomes a filter
    return case.get("kind") == "matcher" and obs.get("rejected")


def nontrivial_key(case, obs):
    import json
    if case.get("kind") == "matcher":
        j = case["m"]
        if not any(j[k] for k in ("prefix", "notPrefix", "sub", "notSub", "regex", "notRegex")):
            return None
        return json.dumps([[j[k] for k in ("prefix", "notPrefix", "sub", "notSub", "regex", "notRegex")], case["names"]])
    return json.dumps([case["routes"], case["aggs"], case["events"]], sort_keys=True)


def sample(case, obs):
    if case.get("kind") == "matcher":
        return {"options": {k: v for k, v in case["m"].items() if v and not k.endswith("_ast")},
                "names": [bytes.fromhex(n).decode() for n in case["names"][:5]], "match": obs.get("match", [])[:5]}
    return c01.sample(case, obs)


def distribution(cases):
    import collections
    d = collections.Counter()
    for c in cases:
        d["kind=" + c.get("kind", "?")] += 1
        if c.get("kind") == "matcher":
            for k in ("prefix", "notPrefix", "sub", "notSub", "regex", "notRegex"):
                if c["m"][k]:
                    d["opt=" + k] += 1
            d["names"] += len(c["names"])
    return dict(d)


def signature(case, obs, code, err):
    if err:
        return "C03:harness-error:" + err[:60]
    if case.get("kind") == "matcher":
        return "C03:matcher:" + ("match-not-the-documented-conjunction" if code == 2 else "differs-from-model")
    return "C03:site:decision-differs"


def shrink(case):
    if case.get("kind") == "matcher":
        ns = case["names"]
        if len(ns) > 1:
            for i in range(len(ns)):
                yield dict(case, names=[ns[i]])
        for k in ("prefix", "notPrefix", "sub", "notSub", "regex", "notRegex"):
            if case["m"][k]:
                m = dict(case["m"])
                m[k] = ""
                m.pop(k + "_ast", None)
                yield dict(case, m=m)
        return
    for c in c01.shrink(case):
        yield c


MANIFEST = {
    "text": "Theorems (Props/C03.v): Match equals the six-way documented conjunction and PreMatch is a necessary condition; the static prefix is "
            "proved sound: every string an anchored regex matches (backtracking engine) starts with the prefix read off its syntax tree "
            "(induction over the tree), and the prefix regexToPrefix scans from the text is sound whenever it is an initial part of that "
            "(prefix_ok, a boolean evaluated for every generated regex on every run), which leaves the main theorem without hypothesis; the "
            "per-aggregator cache is transparent over all histories of lookups and expiry sweeps; destination selection, aggregate routing and "
            "aggregation consumption depend on the metric name only. Tie: matcher.New/Match/PreMatch/regexToPrefix against the model and against "
            "the conjunction evaluated with Go's regexp; the four call sites on real tables.",
    "note": "The engine (Lib/Regex.v) stands for Go's regexp on the generated syntax subset and is cross-checked against it on every (pattern, name) pair; "
            "regexes outside that subset are covered by the differential run only. Trusted: Coq kernel+VM, Go regexp as oracle.",
}
