from ..coqterm import *

ID = "C18"
RUNNER = "C18"
COQ_IMPORTS = "Check.C18check"
CASE_TYPE = "(list (aop * aobs))"
VERDICT = "c18_verdict"
EXPECTED = None
SHARD = 40
RULE = ("cases = sequences of 5-40 admin operations (add/delete route, blacklist entry, rewriter, aggregation, destination; modRoute / modDest "
        "with one to three options, some with a regex that does not compile; valid, out-of-range and unknown targets) on a real table. Before every operation the harness keeps the slices of the currently published configuration "
        "(accessor under the verif tag: the very headers a concurrent Dispatch iterates over); after every operation it re-reads all slices kept "
        "so far (white-box stand-in for 'a dispatcher that loaded the table before the change') and reports any whose contents changed, and "
        "compares the current view and the error/no-error result with the list model. non-trivial & distinct = distinct sequences containing a delete "
        "that is followed by further operations")
ASSUMPTIONS = ["atomic.Value Load/Store is atomic and a reader only touches what is reachable from the value it loaded (Go memory model)",
               "the interleaving with real concurrent dispatchers is covered in the thorough tier only (race-enabled build not part of quick)"]
TRUSTED = ["hooks: table.VerifConfigSlices, route.VerifDests (build tag verif)"]

KINDS = ["Black", "Rw", "Agg"]
OPTS = ["prefix", "notPrefix", "sub", "notSub", "regex", "notRegex"]


def upd_coq(opts):
    valid = not any(opts.get(k) in ("(", "[z") for k in ("regex", "notRegex"))
    return clist([ctuple(cnat(OPTS.index(k)), cbytes(v)) for k, v in sorted(opts.items())], "(nat * bytes)"), cbool(valid)


def gen(rng, tier):
    n = 300 if tier == "quick" else 3000
    cases = []
    for _ in range(n):
        ops = []
        cnt = {"Black": 0, "Rw": 0, "Agg": 0}
        routes = []        # (key, ndests)
        uid = 0
        for _ in range(rng.randrange(5, 41)):
            r = rng.random()
            uid += 1
            if r < .3:
                k = rng.choice(KINDS)
                ops.append({"op": "add" + k, "id": "%s%d" % (k[0].lower(), uid)})
                cnt[k] += 1
            elif r < .5:
                k = rng.choice(KINDS)
                i = rng.randrange(0, cnt[k] + 2) if rng.random() < .3 else (rng.randrange(cnt[k]) if cnt[k] else 0)
                ops.append({"op": "del" + k, "idx": i})
                if i < cnt[k]:
                    cnt[k] -= 1
            elif r < .62:
                key = "r%d" % uid
                ops.append({"op": "addRoute", "id": key})
                routes.append([key, 0])
            elif r < .72:
                if routes and rng.random() < .8:
                    j = rng.randrange(len(routes))
                    ops.append({"op": "delRoute", "key": routes[j][0]})
                    routes.pop(j)
                else:
                    ops.append({"op": "delRoute", "key": "unknown%d" % uid})
            elif r < .88:
                if routes and rng.random() < .9:
                    rt = rng.choice(routes)
                    ops.append({"op": "addDest", "key": rt[0], "id": "d%d" % uid})
                    rt[1] += 1
                else:
                    ops.append({"op": "addDest", "key": "unknown%d" % uid, "id": "d%d" % uid})
            elif r < .94:
                if routes and rng.random() < .9:
                    rt = rng.choice(routes)
                    i = rng.randrange(0, rt[1] + 2) if rng.random() < .3 else (rng.randrange(rt[1]) if rt[1] else 0)
                    ops.append({"op": "delDest", "key": rt[0], "idx": i})
                    if i < rt[1]:
                        rt[1] -= 1
                else:
                    ops.append({"op": "delDest", "key": "unknown%d" % uid, "idx": 0})
            else:
                # modRoute / modDest with one to three options; sometimes one of them is a regex that does not compile
                opts = {}
                for k in rng.sample(OPTS, rng.choice([1, 2, 2, 3])):
                    if k in ("regex", "notRegex"):
                        opts[k] = rng.choice(["^a\\.b", "x$", "^m%d" % uid, "(", "[z"])
                    else:
                        opts[k] = rng.choice(["a.", "web", "m%d" % uid, ""])
                key = rng.choice(routes)[0] if routes and rng.random() < .9 else "unknown%d" % uid
                if rng.random() < .5:
                    ops.append({"op": "modRoute", "key": key, "opts": opts})
                else:
                    nd = dict((r0, n0) for r0, n0 in routes).get(key, 0)
                    ops.append({"op": "modDest", "key": key, "idx": rng.randrange(0, nd + 2) if rng.random() < .3 else (rng.randrange(nd) if nd else 0),
                                "opts": opts})
        cases.append({"ops": ops})
    return cases


def view_coq(v):
    routes = clist([ctuple(cbytes(k), clist([cbytes(d) for d in v["dests"].get(k, [])], "bytes")) for k in v["routes"]], "(bytes * list bytes)")
    filters = clist([ctuple(cbytes(f[0]), clist([cbytes(x) for x in f[1:]], "bytes")) for f in (v.get("filters") or [])], "(bytes * list bytes)")
    return ("{| v_black := %s; v_rw := %s; v_aggs := %s; v_routes := %s; v_filters := %s |}"
            % (clist([cbytes(x) for x in v["black"] or []], "bytes"), clist([cbytes(x) for x in v["rw"] or []], "bytes"),
               clist([cbytes(x) for x in v["aggs"] or []], "bytes"), routes, filters))


def op_coq(o):
    k = o["op"]
    if k == "addRoute":
        return "AddRoute " + cbytes(o["id"])
    if k == "delRoute":
        return "DelRoute " + cbytes(o["key"])
    if k == "addDest":
        return "AddDest %s %s" % (cbytes(o["key"]), cbytes(o["id"]))
    if k == "delDest":
        return "DelDest %s %s" % (cbytes(o["key"]), cnat(o.get("idx", 0)))
    if k == "modRoute":
        return "ModRoute %s %s %s" % ((cbytes(o["key"]),) + upd_coq(o["opts"]))
    if k == "modDest":
        return "ModDest %s %s %s %s" % ((cbytes(o["key"]), cnat(o.get("idx", 0))) + upd_coq(o["opts"]))
    if k.startswith("add"):
        return "Add%s %s" % (k[3:], cbytes(o["id"]))
    return "Del%s %s" % (k[3:], cnat(o.get("idx", 0)))


def to_coq(case, obs):
    return clist([ctuple(op_coq(o), ctuple(ctuple(cbool(ob["res"] == "err"), view_coq(ob["view"])), cbool(bool(ob["stale"]))))
                  for o, ob in zip(case["ops"], obs)], "(aop * aobs)")


def nontrivial_key(case, obs):
    import json
    ops = case["ops"]
    for i, o in enumerate(ops[:-1]):
        if o["op"].startswith("del"):
            return json.dumps(ops)
    return None


def sample(case, obs):
    return {"ops": case["ops"][:8], "results": [o["res"] for o in obs[:8]], "view_after_last": obs[-1]["view"] if obs else None}


def distribution(cases):
    import collections
    d = collections.Counter()
    for c in cases:
        for o in c["ops"]:
            d[o["op"]] += 1
    return dict(d)


def signature(case, obs, code, err):
    if err:
        return "C18:harness-error:" + err[:60]
    if obs and any(o["stale"] for o in obs):
        return "C18:published-configuration-changed-under-readers"
    return "C18:table-view-differs"


def shrink(case):
    ops = case["ops"]
    for i in range(len(ops)):
        if len(ops) > 1:
            yield dict(case, ops=ops[:i] + ops[i + 1:])


MANIFEST = {
    "text": "Theorems (Props/C18.v): over a model of Go slices on shared backing arrays, for every history of appends and copy-on-delete deletes every "
            "previously published header keeps its contents (what atomicity for lock-free readers reduces to); the current view follows list "
            "semantics (append at the end, delete exactly that index, bad index rejected and nothing changed, unknown route no-op); the in-place "
            "delete is refuted by a kernel-computed witness. Tie: admin operation sequences on a real table with the published slices re-read after "
            "every operation.",
    "note": "Partial for schedules: immutability is proved on the slice model and checked white-box on the real slices; that atomic.Value gives readers one of the published values is Go's memory model (trusted). Destination matcher swap is under one mutex (by inspection).",
}
