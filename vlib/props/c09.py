from ..coqterm import *
from .. import dqcase as D

ID = "C09"
RUNNER = "C09"
COQ_IMPORTS = D.COQ_IMPORTS
CASE_TYPE = "c09_case"
VERDICT = "c09_verdict"
EXPECTED = None
SHARD = 20
CONFIRM = True
RULE = ("cases = histories of 5-60 operations put(m) / get / close+reopen on a real nsqd.DiskQueue in a fresh directory (sync ticker parked "
        "at 1 h so that the sync points are determined by the operations), maxBytesPerFile in {1,5,20,64,200}, syncEvery in {1,2,3,5,1000}, "
        "message lengths 0 .. 3 segments, every message unique. Compared op by op with the model: what each get delivers (or that nothing is "
        "deliverable), Depth() at rest, and after the final Close the directory byte for byte (segment files, metadata text). "
        "non-trivial & distinct = distinct histories with at least one roll-over or one reopen with messages pending")
ASSUMPTIONS = ["file-system operations of completed system calls behave like the model's (os.File, bufio.Reader of 4096 bytes)",
               "a get waits 1 s when Depth()>0 and 60 ms otherwise before concluding that nothing is deliverable"]
TRUSTED = ["oracle: os / bufio / encoding/binary / fmt.Fscanf"]


def gen(rng, tier):
    n = 150 if tier == "quick" else 1500
    return [D.gen_history(rng, rng.randrange(5, 61)) for _ in range(n)]


def to_coq(case, obs):
    return ("{| q_cfg := %s; q_ops := %s; q_out := %s; q_depth := %s; q_final := %s |}"
            % (D.cfg_coq(case), D.ops_coq(case["ops"]), clist([D.out_coq(o) for o in obs["out"]], "dout"),
               clist([cZ(d) for d in obs["depth"]], "Z"), D.fs_coq(obs["final"])))


def nontrivial_key(case, obs):
    import json
    segs = set()
    roll = len(obs["final"]["segs"]) > 0 and max(int(k) for k in obs["final"]["segs"]) > 0
    reopen_pending = any(o["op"] == "reopen" for o in case["ops"])
    return json.dumps(case) if (roll or reopen_pending) else None


def sample(case, obs):
    return {"maxBytesPerFile": case["max"], "syncEvery": case["syncevery"],
            "ops": [(o["op"], len(o.get("m", "")) // 2) for o in case["ops"][:10]], "out": obs["out"][:10], "depth": obs["depth"][:10]}


def distribution(cases):
    import collections
    d = collections.Counter()
    for c in cases:
        d["max=%d" % c["max"]] += 1
        d["syncevery=%d" % c["syncevery"]] += 1
        for o in c["ops"]:
            d["op=" + o["op"]] += 1
    return dict(d)


def signature(case, obs, code, err):
    if err:
        return "C09:harness-error:" + err[:60]
    return "C09:fifo-differs"


def shrink(case):
    ops = case["ops"]
    for i in range(len(ops)):
        if len(ops) > 1:
            yield dict(case, ops=ops[:i] + ops[i + 1:])


MANIFEST = {
    "text": "Model: the I/O loop of nsqd/diskqueue.go as a step function over an explicit file system, incl. the read handle's bufio buffer. "
            "Theorems (Props/C09.v): FIFO refinement through the byte level for EVERY history of puts, gets, sync ticks and clean restarts, any "
            "maxBytesPerFile (also smaller than one message), any syncEvery, messages below 2^31 bytes (C09_fifo_all_segments, C09_fifo_from_any_layout): "
            "the model's outputs equal the abstract queue's (gets in order, each once; roll-over, over-sized messages and restarts lose and duplicate "
            "nothing; depth at rest = undelivered messages), by an invariant laying the undelivered messages out over the segment files "
            "(closed files end with the record that crossed the limit, reader and writer agree on that record, consumed files removed, read-ahead kept); "
            "the first-segment refinement, correctness of the buffered reader for any buffer state, frame and metadata round trips. "
            "Tie: real DiskQueue histories compared op by op (delivered message, depth at rest) and the final directory byte for byte.",
    "note": "The theorem is about clean histories from an empty directory (crashes are C08); read errors cannot occur under the invariant, so the "
            "handleReadError / skipToNextRWFile paths are exercised by C08's crash images only. "
            "Trusted: Coq kernel+VM; OS file semantics of completed calls; os/bufio/fmt as oracles.",
}
