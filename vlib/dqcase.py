"""disk-queue cases -> Coq terms (Check/DQcheck.v)"""
from .coqterm import *

COQ_IMPORTS = "Model.DiskQueue Check.DQcheck"


def fs_coq(s):
    segs = clist([ctuple(cN(int(n)), cbytes(bytes.fromhex(h))) for n, h in sorted(s["segs"].items(), key=lambda x: int(x[0]))], "(N * bytes)")
    bad = clist([ctuple(cN(int(n)), cbytes(bytes.fromhex(h))) for n, h in sorted(s["bad"].items(), key=lambda x: int(x[0]))], "(N * bytes)")
    meta = copt(cbytes(bytes.fromhex(s["meta"])) if s.get("meta") is not None else None, "bytes")
    tmp = copt(cbytes(bytes.fromhex(s["tmp"])) if s.get("tmp") is not None else None, "bytes")
    return "{| f_segs := %s; f_bad := %s; f_meta := %s; f_tmp := %s |}" % (segs, bad, meta, tmp)


def ops_coq(ops):
    out = []
    for o in ops:
        if o["op"] == "put":
            out.append("Put " + cbytes(bytes.fromhex(o["m"])))
        elif o["op"] == "get":
            out.append("Get")
        else:
            out.append("CloseReopen")
    return clist(out, "dop")


def cfg_coq(c):
    return "{| c_max := %s; c_syncevery := %s |}" % (cN(c["max"]), cZ(c["syncevery"]))


def out_coq(o):
    if o == "ok":
        return "OPut"
    if o.startswith("get:"):
        return "OGet (Some %s)" % cbytes(bytes.fromhex(o[4:]))
    if o == "none":
        return "OGet None"
    if o == "reopen":
        return "OReopen 0%Z"
    return "OPanic"


def gen_msg(rng, maxb, uniq):
    r = rng.random()
    if r < .1:
        n = 0
    elif r < .6:
        n = rng.randrange(1, max(2, min(12, maxb)))
    elif r < .85:
        n = rng.randrange(1, maxb + 8)
    else:
        n = rng.randrange(maxb, 3 * maxb + 10)
    body = ("%d:" % uniq).encode()
    return (body + bytes(rng.randrange(97, 123) for _ in range(max(0, n - len(body)))))


def gen_history(rng, nops, max_choices=(1, 5, 20, 20, 64, 200), reopen=True):
    maxb = rng.choice(max_choices)
    c = {"max": maxb, "syncevery": rng.choice([1, 2, 3, 5, 1000]), "ops": []}
    depth = 0
    uniq = 0
    for _ in range(nops):
        r = rng.random()
        if r < .5 or (depth == 0 and r < .8):
            uniq += 1
            c["ops"].append({"op": "put", "m": gen_msg(rng, maxb, uniq).hex()})
            depth += 1
        elif r < .92:
            c["ops"].append({"op": "get"})
            depth = max(0, depth - 1)
        elif reopen:
            c["ops"].append({"op": "reopen"})
        else:
            c["ops"].append({"op": "get"})
            depth = max(0, depth - 1)
    return c
