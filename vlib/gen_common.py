"""Generators shared by the table-family properties: regex ASTs (with an RE2 printer and a Coq printer),
matcher specs, names, tables."""
from .coqterm import *

TOK = ["foo", "bar", "baz", "a", "b", "x", "web", "cpu", "ab", "fo", "1", "x1"]


def gen_name(rng, maxparts=4):
    n = rng.randrange(1, maxparts + 1)
    return ".".join(rng.choice(TOK) for _ in range(n))


# ---------------- regex ASTs ----------------
def lit(s):
    r = None
    for ch in s:
        n = ('chr', ord(ch))
        r = n if r is None else ('cat', r, n)
    return r if r is not None else ('eps',)


def nullable(r):
    t = r[0]
    if t in ('eps', 'bol', 'eol'):
        return True
    if t in ('chr', 'any', 'cls'):
        return False
    if t == 'cat':
        return nullable(r[1]) and nullable(r[2])
    if t == 'alt':
        return nullable(r[1]) or nullable(r[2])
    if t in ('star', 'opt'):
        return True
    if t == 'plus':
        return nullable(r[2])
    if t == 'rep':
        return r[2] == 0 or nullable(r[4])
    if t == 'grp':
        return nullable(r[2])
    raise ValueError(t)


CLASSES = [(False, [(97, 122)]), (False, [(48, 57)]), (True, [(46, 46)]), (False, [(97, 122), (48, 57), (95, 95)]),
           (False, [(97, 99)]), (True, [(97, 102)])]


def gen_atom(rng, depth):
    r = rng.random()
    if r < .45:
        return lit(rng.choice(TOK))
    if r < .55:
        return ('chr', 46)
    if r < .65:
        return ('any',)
    if r < .8:
        neg, rs = rng.choice(CLASSES)
        return ('cls', neg, rs)
    if depth > 0:
        return ('grp', 0, gen_re(rng, depth - 1)) if rng.random() < .5 else gen_re(rng, depth - 1)
    return ('chr', ord(rng.choice("abfox")))


def gen_quant(rng, a):
    if nullable(a):
        return a
    g = rng.random() < .8
    r = rng.random()
    if r < .25:
        return ('star', g, a)
    if r < .5:
        return ('plus', g, a)
    if r < .75:
        return ('opt', g, a)
    lo = rng.randrange(0, 3)
    hi = rng.choice([None, lo, lo + 1, lo + 2])
    return ('rep', g, lo, hi, a)


def gen_re(rng, depth=2):
    parts = []
    for _ in range(rng.randrange(1, 4)):
        a = gen_atom(rng, depth)
        if rng.random() < .35:
            a = gen_quant(rng, a)
        parts.append(a)
    r = parts[0]
    for p in parts[1:]:
        r = ('cat', r, p)
    if depth > 0 and rng.random() < .2:
        r = ('alt', r, gen_re(rng, depth - 1))
    return r


def gen_filter_re(rng):
    """regexes shaped like the ones people write for filters: mostly ^literal heads followed by
    every quantifier / alternation shape (the shapes the static-prefix shortcut must survive)"""
    r = rng.random()
    body = gen_re(rng, 2)
    if r < .6:
        head = lit(rng.choice(TOK) + rng.choice(["", ".", "."]) + rng.choice(["", "", rng.choice(TOK)]))
        k = rng.random()
        if k < .3:
            # quantifier right after the literal head: ^ab?c  ^ab*  ^ab{0,1}c
            q = gen_quant(rng, ('chr', ord(rng.choice("abox."))))
            body = ('cat', head, ('cat', q, body)) if rng.random() < .7 else ('cat', head, q)
        elif k < .45:
            body = ('alt', ('cat', ('bol',), head), body)
            return renumber(body)
        else:
            body = ('cat', head, body)
        body = ('cat', ('bol',), body)
    elif r < .7:
        body = ('cat', body, ('eol',))
    elif r < .8:
        body = ('cat', ('bol',), ('cat', body, ('eol',)))
    return renumber(body)


def renumber(r):
    cnt = [0]

    def go(r):
        t = r[0]
        if t == 'grp':
            cnt[0] += 1
            i = cnt[0]
            return ('grp', i, go(r[2]))
        if t in ('cat', 'alt'):
            a = go(r[1])
            b = go(r[2])
            return (t, a, b)
        if t in ('star', 'plus', 'opt'):
            return (t, r[1], go(r[2]))
        if t == 'rep':
            return ('rep', r[1], r[2], r[3], go(r[4]))
        return r
    return go(r)


def ngroups(r):
    t = r[0]
    if t == 'grp':
        return 1 + ngroups(r[2])
    if t in ('cat', 'alt'):
        return ngroups(r[1]) + ngroups(r[2])
    if t in ('star', 'plus', 'opt'):
        return ngroups(r[2])
    if t == 'rep':
        return ngroups(r[4])
    return 0


def esc_chr(c):
    ch = chr(c)
    if ch.isalnum() or ch in "_-":
        return ch
    if ch == '.':
        return "\\."
    return "\\" + ch


def pr(r, lvl=0):
    """RE2 source; lvl 0 alt, 1 cat, 2 repeat operand"""
    t = r[0]
    if t == 'eps':
        return "(?:)"
    if t == 'chr':
        return esc_chr(r[1])
    if t == 'any':
        return "."
    if t == 'cls':
        s = "[" + ("^" if r[1] else "")
        for lo, hi in r[2]:
            s += (esc_cls(lo) if lo == hi else esc_cls(lo) + "-" + esc_cls(hi))
        return s + "]"
    if t == 'bol':
        return "^"
    if t == 'eol':
        return "$"
    if t == 'grp':
        return "(" + pr(r[2], 0) + ")"
    if t == 'cat':
        s = pr(r[1], 1) + pr(r[2], 1)
        return s if lvl <= 1 else "(?:" + s + ")"
    if t == 'alt':
        s = pr(r[1], 0) + "|" + pr(r[2], 0)
        return s if lvl <= 0 else "(?:" + s + ")"
    if t in ('star', 'plus', 'opt', 'rep'):
        a = r[2] if t != 'rep' else r[4]
        s = pr(a, 2)
        if a[0] in ('star', 'plus', 'opt', 'rep', 'bol', 'eol'):
            s = "(?:" + s + ")"
        if t == 'star':
            q = "*"
        elif t == 'plus':
            q = "+"
        elif t == 'opt':
            q = "?"
        else:
            lo, hi = r[2], r[3]
            q = "{%d}" % lo if hi == lo else ("{%d,}" % lo if hi is None else "{%d,%d}" % (lo, hi))
        s = s + q + ("" if r[1] else "?")
        return s if lvl <= 2 else "(?:" + s + ")"
    raise ValueError(t)


def esc_cls(c):
    ch = chr(c)
    if ch.isalnum() or ch == '_':
        return ch
    return "\\" + ch


def re_coq(r):
    t = r[0]
    if t == 'eps':
        return "Eps"
    if t == 'chr':
        return "(Chr %d)" % r[1]
    if t == 'any':
        return "Any"
    if t == 'cls':
        return "(Cls %s %s)" % (cbool(r[1]), clist(["(%d, %d)" % x for x in r[2]], "(N * N)"))
    if t == 'bol':
        return "Bol"
    if t == 'eol':
        return "Eol"
    if t == 'grp':
        return "(Grp %d%%nat %s)" % (r[1], re_coq(r[2]))
    if t == 'cat':
        return "(Cat %s %s)" % (re_coq(r[1]), re_coq(r[2]))
    if t == 'alt':
        return "(Alt %s %s)" % (re_coq(r[1]), re_coq(r[2]))
    if t in ('star', 'plus', 'opt'):
        return "(%s %s %s)" % (t.capitalize(), cbool(r[1]), re_coq(r[2]))
    if t == 'rep':
        return "(Rep %s %d%%nat %s %s)" % (cbool(r[1]), r[2], copt(None if r[3] is None else "%d%%nat" % r[3], "nat"), re_coq(r[4]))
    raise ValueError(t)


def sample_match(rng, r, depth=0):
    """a string the regex is likely to match (used to derive names from regexes)"""
    t = r[0]
    if t in ('eps', 'bol', 'eol'):
        return ""
    if t == 'chr':
        return chr(r[1])
    if t == 'any':
        return rng.choice("abx.1")
    if t == 'cls':
        cands = [c for c in "abcfoxz019_.-" if (any(lo <= ord(c) <= hi for lo, hi in r[2])) != r[1]]
        return rng.choice(cands) if cands else "q"
    if t == 'grp':
        return sample_match(rng, r[2], depth)
    if t == 'cat':
        return sample_match(rng, r[1], depth) + sample_match(rng, r[2], depth)
    if t == 'alt':
        return sample_match(rng, r[1] if rng.random() < .5 else r[2], depth)
    if t == 'star':
        return "".join(sample_match(rng, r[2], depth) for _ in range(rng.randrange(0, 3)))
    if t == 'plus':
        return "".join(sample_match(rng, r[2], depth) for _ in range(rng.randrange(1, 3)))
    if t == 'opt':
        return sample_match(rng, r[2], depth) if rng.random() < .5 else ""
    if t == 'rep':
        lo, hi = r[2], r[3]
        n = rng.randrange(lo, (hi if hi is not None else lo + 2) + 1)
        return "".join(sample_match(rng, r[4], depth) for _ in range(n))
    raise ValueError(t)


# ---------------- matchers ----------------
class M:
    """a matcher spec: plain options plus regex ASTs"""
    def __init__(self, prefix="", notPrefix="", sub="", notSub="", regex=None, notRegex=None):
        self.prefix, self.notPrefix, self.sub, self.notSub, self.regex, self.notRegex = prefix, notPrefix, sub, notSub, regex, notRegex

    def json(self):
        return {"prefix": self.prefix, "notPrefix": self.notPrefix, "sub": self.sub, "notSub": self.notSub,
                "regex": pr(self.regex) if self.regex else "", "notRegex": pr(self.notRegex) if self.notRegex else ""}

    @staticmethod
    def from_json(j, asts):
        return M(j.get("prefix", ""), j.get("notPrefix", ""), j.get("sub", ""), j.get("notSub", ""), asts.get("regex"), asts.get("notRegex"))


def rx_coq(ast):
    if ast is None:
        return "(@None rx)"
    return "(Some {| rx_src := %s; rx_ast := %s |})" % (cbytes(pr(ast)), re_coq(ast))


def matcher_coq(j):
    """j: the JSON matcher spec with extra keys regex_ast / notRegex_ast (python tuples serialised as lists)"""
    return ("{| m_prefix := %s; m_notPrefix := %s; m_sub := %s; m_notSub := %s; m_regex := %s; m_notRegex := %s |}"
            % (cbytes(j.get("prefix", "")), cbytes(j.get("notPrefix", "")), cbytes(j.get("sub", "")), cbytes(j.get("notSub", "")),
               rx_coq(tup(j.get("regex_ast"))), rx_coq(tup(j.get("notRegex_ast")))))


def tup(x):
    if x is None:
        return None
    if isinstance(x, list):
        return tuple(tup(y) for y in x)
    return x


def gen_matcher(rng, p_any=.25, p_regex=.3):
    """returns the JSON spec (with the ASTs alongside so that the case is self-contained)"""
    j = {"prefix": "", "notPrefix": "", "sub": "", "notSub": "", "regex": "", "notRegex": ""}
    if rng.random() < p_any:
        return j
    frag = lambda: rng.choice(TOK) + rng.choice(["", "", ".", "." + rng.choice(TOK)])
    if rng.random() < .35:
        j["prefix"] = frag()
    if rng.random() < .2:
        j["notPrefix"] = frag()
    if rng.random() < .3:
        j["sub"] = rng.choice(TOK + [".", ".a", "o.b"])
    if rng.random() < .2:
        j["notSub"] = rng.choice(TOK + [".x", "1"])
    if rng.random() < p_regex:
        a = gen_filter_re(rng)
        j["regex"], j["regex_ast"] = pr(a), a
    if rng.random() < p_regex / 2:
        a = gen_filter_re(rng)
        j["notRegex"], j["notRegex_ast"] = pr(a), a
    return j


def name_for_matcher(rng, j):
    """a name biased towards (nearly) satisfying the matcher"""
    base = gen_name(rng)
    if j.get("regex_ast") is not None and rng.random() < .7:
        base = sample_match(rng, tup(j["regex_ast"]))
        if rng.random() < .3 and base:
            base = base[:-1]
        if rng.random() < .2:
            base = base + "." + rng.choice(TOK)
    if j["prefix"] and rng.random() < .7:
        base = j["prefix"] + base
    if j["sub"] and rng.random() < .5:
        k = rng.randrange(len(base) + 1)
        base = base[:k] + j["sub"] + base[k:]
    base = base.strip(".") or "n"
    return base
