"""TABLE runner cases -> Coq table_case terms (Check/TableCheck.v)."""
import re
from .coqterm import *
from .gen_common import matcher_coq, re_coq, tup

COQ_IMPORTS = "Lib.Regex Model.Validate Model.Matcher Model.Rewriter Model.Table Model.Aggregator Check.TableCheck"
CASE_TYPE = "table_case"
VERDICT = "table_verdict"

LL = {"strict": "StrictLegacy", "medium": "MediumLegacy", "none": "NoneLegacy"}
LM = {"medium": "MediumM20", "none": "NoneM20"}
KIND = {"capture": "Other", "sendAllMatch": "SendAll", "sendFirstMatch": "SendFirst", "consistentHashing": "ConsHash"}

ERRS = [("packet must consist of 3 fields", 1), ("value field is not a float or int", 2), ("timestamp field is not a unix timestamp", 3),
        ("empty node", 4), ("empty key", 5), ("both = and _is_", 6), ("no unit tag", 7), ("no mtype tag", 8),
        ("must have at least 1 tag beyond unit and mtype", 9), ("invalid tag appendix", 10),
        ("point is not newer than previous", 20)]


def err_code(s):
    for t, c in ERRS:
        if s == t:
            return (c, 0)
    m = re.match(r"null byte at position (\d+)$", s)
    if m:
        return (11, int(m.group(1)))
    if s.startswith("illegal char "):
        return (12, 0)
    if s.startswith("non-ASCII char "):
        return (13, 0)
    return (99, 0)


def rw_coq(r):
    old, not_ = r["old"], r["not"]
    slashed = lambda s: len(s) > 1 and s[0] == "/" and s[-1] == "/"
    return ("{| rw_old := %s; rw_new := %s; rw_not := %s; rw_max := %s; rw_re := %s; rw_notre := %s |}"
            % (cbytes(old), cbytes(r["new"]), cbytes(not_), cZ(r["max"]),
               copt(re_coq(tup(r["old_ast"])) if slashed(old) else None, "re"),
               copt(re_coq(tup(r["not_ast"])) if slashed(not_) else None, "re")))


def table_coq(c):
    routes = []
    for r in c["routes"]:
        dests = ["{| d_matcher := %s; d_addr := %s |}" % (matcher_coq(d["m"]), cbytes(d["addr"])) for d in r.get("dests", [])]
        routes.append("{| r_kind := %s; r_matcher := %s; r_dests := %s |}" % (KIND[r["kind"]], matcher_coq(r["m"]), clist(dests, "dest")))
    aggs = ["{| a_matcher := %s; a_dropraw := %s; a_outfmt := %s |}" % (matcher_coq(a["m"]), cbool(a["dropraw"]), cbytes(a["outfmt"])) for a in c.get("aggs", [])]
    return ("{| t_ll := %s; t_lm := %s; t_order := %s; t_blacklist := %s; t_rewriters := %s; t_aggs := %s; t_routes := %s |}"
            % (LL[c["ll"]], LM[c["lm"]], cbool(c.get("order", False)),
               clist([matcher_coq(m) for m in c.get("blacklist", [])], "matcher"),
               clist([rw_coq(r) for r in c.get("rewriters", [])], "rw"),
               clist(aggs, "agg"), clist(routes, "route")))


def ev_obs_coq(o):
    bad = None
    if o.get("bad"):
        k, msg, err = o["bad"]
        code = err_code(err)
        bad = ctuple(cbytes(bytes.fromhex(k)), cbytes(bytes.fromhex(msg)), ctuple(cN(code[0]), cN(code[1])))
    return ("{| eo_cnt := %s; eo_bad := %s; eo_newbad := %s; eo_routes := %s; eo_dests := %s; eo_aggs := %s; eo_val_ok := %s; eo_ts_ok := %s; eo_ts := %s; eo_bits := %s |}"
            % (clist([cZ(x) for x in o["cnt"]], "Z"), copt(bad, "(bytes * bytes * (N * N))"), cnat(o.get("newbad", 0)),
               clist([ctuple(cnat(int(i)), cbytes(bytes.fromhex(l))) for i, l in o.get("routes") or []], "(nat * bytes)"),
               clist([ctuple(cnat(r), cnat(d), cZ(n)) for r, d, n in o.get("dests") or []], "(nat * nat * Z)"),
               clist([cZ(x) for x in o.get("aggs") or []], "Z"),
               cbool(o.get("val_ok", False)), cbool(o.get("ts_ok", False)), cN(o.get("ts32", 0)), cZ(int(o.get("bits") or 0))))


def case_coq(c, obs, mask):
    evs = []
    for ev, o in zip(c["events"], obs["events"]):
        if ev["t"] in ("now", "tick"):
            evs.append(ctuple("%s %s" % ("ENow" if ev["t"] == "now" else "ETick", cN(ev["now"])), ev_obs_coq(o)))
            continue
        if ev["t"] == "modroute":
            evs.append(ctuple("EModRoute %s %s" % (cnat(ev["ri"]), matcher_coq(ev["m"])), ev_obs_coq(o)))
            continue
        con = "ELine" if ev["t"] == "line" else "EAgg"
        evs.append(ctuple("%s %s" % (con, cbytes(bytes.fromhex(ev["b"]))), ev_obs_coq(o)))
    keys = None
    if c.get("stall_aggs"):
        keys = clist([cbytes(bytes.fromhex(k)) for k in obs.get("agg_keys") or []], "bytes")
    FN = {"avg": "FAvg", "count": "FCount", "delta": "FDelta", "derive": "FDerive", "last": "FLast", "max": "FMax", "min": "FMin",
          "stdev": "FStdev", "sum": "FSum", "percentiles": "FPercentiles"}
    cfgs = clist([ctuple(FN[a["fun"]], cN(a["interval"]), cN(a["wait"])) for a in c.get("aggs", [])], "agg_cfg")
    return ("{| tc_mask := %s; tc_table := %s; tc_aggcfg := %s; tc_events := %s; tc_mutated := %s; tc_agg_keys := %s |}"
            % (cN(mask), table_coq(c), cfgs, clist(evs, "(event * ev_obs)"), cbool(obs.get("mutated", False)), copt(keys, "(list bytes)")))


MASK_COUNTERS, MASK_BAD, MASK_ROUTES, MASK_LINES, MASK_DESTS, MASK_AGGS = 1, 2, 4, 8, 16, 32


def line_hex(name, val="1", ts="1000", sep=" "):
    return (name + sep + val + sep + ts).encode("latin-1").hex()
