"""Python values -> Coq terms (text)."""

def cbytes(b):
    if isinstance(b, str):
        b = b.encode('latin-1')
    return "([" + ";".join(str(x) for x in b) + "])%N" if len(b) else "(@nil N)"

def cN(n):
    assert n >= 0
    return "%d%%N" % n

def cZ(n):
    return "(%d)%%Z" % n

def cnat(n):
    assert 0 <= n < 5000, n
    return "%d%%nat" % n

def cbool(b):
    return "true" if b else "false"

def clist(items, ty=None):
    items = list(items)
    if not items:
        return "(@nil %s)" % ty if ty else "[]"
    return "[" + "; ".join(items) + "]"

def ctuple(*items):
    return "(" + ", ".join(items) + ")"

def copt(x, ty=None):
    if x is None:
        return "(@None %s)" % ty if ty else "None"
    return "(Some %s)" % x
