"""Python values -> Coq terms (text)."""

def cbytes(b):
    if isinstance(b, str):
        b = b.encode('latin-1')
    if len(b) > 1500:
        # long strings: run-length encoded (Coq's parser overflows its stack on very long list literals)
        segs, i = [], 0
        while i < len(b):
            j = i
            while j < len(b) and b[j] == b[i]:
                j += 1
            if j - i >= 32:
                segs.append("repeat %d%%N (N.to_nat %d%%N)" % (b[i], j - i))
                i = j
            else:
                k = i
                while k < len(b) and k - i < 1000 and not (k + 32 <= len(b) and len(set(b[k:k + 32])) == 1):
                    k += 1
                k = max(k, i + 1)
                segs.append("[" + ";".join(str(x) for x in b[i:k]) + "]%N")
                i = k
        return "(" + " ++ ".join(segs) + ")"
    return "([" + ";".join(str(x) for x in b) + "])%N" if len(b) else "(@nil N)"

def cN(n):
    assert n >= 0
    return "%d%%N" % n

def cZ(n):
    return "(%d)%%Z" % n

def cnat(n):
    assert 0 <= n < 5000, n
    return "%d%%nat" % n

def cbool(b):
    return "true" if b else "false"

def clist(items, ty=None):
    items = list(items)
    if not items:
        return "(@nil %s)" % ty if ty else "[]"
    return "[" + "; ".join(items) + "]"

def ctuple(*items):
    return "(" + ", ".join(items) + ")"

def copt(x, ty=None):
    if x is None:
        return "(@None %s)" % ty if ty else "None"
    return "(Some %s)" % x
