"""Pipeline shared by all property checks (see DESIGN.md section 2)."""
import concurrent.futures, fcntl, glob, hashlib, importlib, json, os, random, re, shutil, subprocess, sys, time

ROOT = os.path.dirname(os.path.dirname(os.path.abspath(__file__)))
COQ = os.path.join(ROOT, "coq")
REPO = os.environ.get("VERIF_REPO", "/repo")
GOENV = dict(os.environ, GOFLAGS="-mod=mod", GOPROXY="off", GOSUMDB="off", GOTOOLCHAIN="local",
             CGO_ENABLED=os.environ.get("CGO_ENABLED", "0"))
FORBIDDEN = re.compile(r"\b(Admitted|admit|Axiom|Axioms|Parameter|Parameters|Conjecture|Unset\s+Guard|bypass_check|type-in-type|impredicative-set|Admit\s+Obligations)\b")
ALLOWED_AXIOMS = set()   # none needed so far; any axiom printed by Print Assumptions fails the obligation

TRUSTED_BASE = [
    "Coq 8.16.1 kernel (coqc), incl. its VM (vm_compute evaluates the model on the cases and the *_nonvacuous/*_refuted examples); no native_compute",
    "no axioms: every theorem in Props/ prints 'Closed under the global context' (checked on every run)",
    "hand-written Gallina model of the anchored Go code; tied to /repo only by this run's differential correspondence check (Go harness built from /repo's working tree with -tags verif)",
    "the Go harness, the python3 case generators/encoders (vlib/), go toolchain",
]


class Fail(Exception):
    pass


def sh(cmd, timeout, cwd=None, env=None, input=None):
    p = subprocess.run(cmd, cwd=cwd, env=env, input=input, stdout=subprocess.PIPE, stderr=subprocess.PIPE,
                       timeout=timeout, shell=isinstance(cmd, str))
    return p.returncode, p.stdout.decode("utf-8", "replace"), p.stderr.decode("utf-8", "replace")


def build_coq():
    """Full .vo build (no-op when up to date); serialised across concurrent checks."""
    os.makedirs(os.path.join(ROOT, ".work"), exist_ok=True)
    with open(os.path.join(ROOT, ".work", "coq.lock"), "w") as lk:
        fcntl.flock(lk, fcntl.LOCK_EX)
        if not os.path.exists(os.path.join(COQ, "Makefile")):
            rc, out, err = sh("coq_makefile -f _CoqProject -o Makefile", 120, cwd=COQ)
            if rc != 0:
                raise Fail("coq_makefile failed: " + err[-2000:])
        rc, out, err = sh("make -j16", 3000, cwd=COQ)
        if rc != 0:
            return False, (out + err)[-4000:]
    return True, ""


def grep_gate():
    bad = []
    for f in glob.glob(os.path.join(COQ, "**", "*.v"), recursive=True):
        txt = open(f).read()
        txt = re.sub(r"\(\*.*?\*\)", "", txt, flags=re.S)
        for m in FORBIDDEN.finditer(txt):
            bad.append("%s: %s" % (os.path.relpath(f, ROOT), m.group(0)))
    return bad


def check_props(pid, work):
    """Re-compile Props/<pid>.v, count theorems and closed assumption reports."""
    src = os.path.join(COQ, "Props", pid + ".v")
    txt = open(src).read()
    theorems = re.findall(r"^\s*(?:Theorem|Corollary)\s+(\w+)", txt, flags=re.M)
    cmd = ["coqc", "-Q", COQ, "CRNG", "-w", "-notation-overridden", "-o", os.path.join(work, pid + ".vo"), src]
    rc, out, err = sh(cmd, 1200)
    closed = out.count("Closed under the global context")
    axioms = re.findall(r"^Axioms:\n((?:.+\n)+)", out, flags=re.M)
    prints = len(re.findall(r"^\s*Print Assumptions", txt, flags=re.M))
    info = {"theorems": theorems, "obligations": len(theorems), "closed": closed,
            "print_assumptions": prints, "axioms_reported": axioms, "rc": rc,
            "checker_cmd": "make -C coq -j16 && coqc -Q coq CRNG coq/Props/%s.v  (+ grep gate for Admitted/Axiom/Parameter/...)" % pid}
    ok = rc == 0 and not axioms and closed == prints and prints >= len(theorems)
    info["discharged"] = len(theorems) if ok else 0
    if not ok:
        info["log"] = (out + err)[-3000:]
    return ok, info


def build_harness(work):
    h = os.path.join(ROOT, "harness")
    shutil.copy(os.path.join(REPO, "go.sum"), os.path.join(h, "go.sum"))
    exe = os.path.join(work, "harness")
    rc, out, err = sh(["go", "build", "-tags", "verif", "-o", exe, "."], 1500, cwd=h, env=GOENV)
    if rc != 0:
        return None, (out + err)[-4000:]
    return exe, ""


def run_harness(exe, pid, cases, timeout, extra_env=None):
    """cases: list of JSON-able dicts; returns list of (obs, err)"""
    inp = "".join(json.dumps({"id": i, "case": c}) + "\n" for i, c in enumerate(cases)).encode()
    env = dict(os.environ)
    if extra_env:
        env.update(extra_env)
    try:
        p = subprocess.run([exe, pid], input=inp, stdout=subprocess.PIPE, stderr=subprocess.PIPE, timeout=timeout, env=env)
    except subprocess.TimeoutExpired as te:
        class _P:
            returncode = -9
            stdout = te.stdout or b""
            stderr = b"harness run exceeded %d s" % timeout
        p = _P()
    res = [None] * len(cases)
    for line in p.stdout.decode().splitlines():
        if not line.strip():
            continue
        o = json.loads(line)
        res[o["id"]] = (o.get("obs"), o.get("err"))
    crashed = None
    if p.returncode != 0:
        crashed = "harness exited with %d: %s" % (p.returncode, p.stderr.decode("utf-8", "replace")[-1500:])
    return res, crashed


def coq_eval(plugin, terms, work, tag, shard=250, timeout=1500):
    """terms: list of Coq terms of the plugin's case*obs type.  Returns {index: code} for non-zero verdicts."""
    # balanced shards: the longest terms first, each to the currently lightest shard (big cases do not pile up in one coqc)
    nsh = max(1, (len(terms) + shard - 1) // shard)
    groups = [[] for _ in range(nsh)]
    load = [0] * nsh
    for gi in sorted(range(len(terms)), key=lambda i: -len(terms[i])):
        k = min(range(nsh), key=lambda j: (load[j] + (10 ** 9 if len(groups[j]) >= 2 * shard else 0), j))
        groups[k].append(gi)
        load[k] += len(terms[gi]) + 2000
    groups = [sorted(g) for g in groups if g]

    def one(k):
        name = "cases_%s_%d" % (tag, k)
        path = os.path.join(work, name + ".v")
        with open(path, "w") as f:
            f.write("From CRNG Require Import Base.Bytes Check.Common %s.\n" % plugin.COQ_IMPORTS)
            f.write("Definition cases : list %s := [\n" % plugin.CASE_TYPE)
            f.write(";\n".join(terms[gi] for gi in groups[k]))
            f.write("\n].\nDefinition bad := Eval vm_compute in mismatches %s cases.\nPrint bad.\n" % plugin.VERDICT)
        rc, out, err = sh(["coqc", "-Q", COQ, "CRNG", "-w", "-notation-overridden", path], timeout)
        if rc != 0:
            raise Fail("coqc failed on %s: %s" % (path, (out + err)[-3000:]))
        m = re.search(r"bad\s*=\s*(.*?)\s*:\s*list", out, flags=re.S)
        if not m:
            raise Fail("cannot parse coqc output: " + out[-2000:])
        res = {}
        for x in re.findall(r"\((\d+)%nat,\s*(\d+)\)|\((\d+),\s*(\d+)\)", m.group(1)):
            res[groups[k][int(x[0] or x[2])]] = int(x[1] or x[3])
        return res

    out = {}
    with concurrent.futures.ThreadPoolExecutor(max_workers=14) as ex:
        for r in ex.map(one, range(len(groups))):
            out.update(r)
    return out


def coq_expected(plugin, term, work):
    """Ask the model what it expected for one case (diagnostics in replay files)."""
    if not getattr(plugin, "EXPECTED", None):
        return None
    path = os.path.join(work, "expected_%d.v" % random.randrange(1 << 30))
    with open(path, "w") as f:
        f.write("From CRNG Require Import Base.Bytes Check.Common %s.\n" % plugin.COQ_IMPORTS)
        f.write("Definition c : %s := %s.\nEval vm_compute in %s (fst c).\n" % (plugin.CASE_TYPE, term, plugin.EXPECTED))
    rc, out, err = sh(["coqc", "-Q", COQ, "CRNG", "-w", "-notation-overridden", path], 600)
    return re.sub(r"\s+", " ", out.strip())[:4000] if rc == 0 else None


def load_known():
    p = os.path.join(ROOT, "known_findings.json")
    if not os.path.exists(p):
        return {"findings": [], "fixed": []}
    return json.load(open(p))


def load_corpus(pid):
    out = []
    for f in sorted(glob.glob(os.path.join(ROOT, "corpus", pid, "*.json"))):
        d = json.load(open(f))
        out.append(d["case"] if isinstance(d, dict) and "case" in d else d)
    return out


def write_evidence(pid, tier, seed, coverage, assumptions, wall, violations):
    ev = {"property_id": pid, "tier": tier, "seed": seed, "level": "proof", "coverage": coverage,
          "assumptions": assumptions, "wall_s": round(wall, 2), "violations": violations}
    os.makedirs(os.path.join(ROOT, "evidence"), exist_ok=True)
    with open(os.path.join(ROOT, "evidence", pid + ".json"), "w") as f:
        json.dump(ev, f, indent=1, sort_keys=True)


def write_replay(pid, name, payload):
    os.makedirs(os.path.join(ROOT, "replays"), exist_ok=True)
    p = os.path.join(ROOT, "replays", "%s-%s.json" % (pid, name))
    with open(p, "w") as f:
        json.dump(payload, f, indent=1, sort_keys=True)
    return p


def run_check(pid, tier, seed, replay_case=None):
    t0 = time.time()
    plugin = importlib.import_module("vlib.props." + pid.lower())
    work = os.path.join(ROOT, ".work", "%s-%d" % (pid, os.getpid()))
    shutil.rmtree(work, ignore_errors=True)
    os.makedirs(work)
    violations = []     # (replay_path, suffix)
    known_lines = []
    coverage = {}
    try:
        rc = _run(plugin, pid, tier, seed, work, violations, known_lines, coverage, replay_case)
    finally:
        shutil.rmtree(work, ignore_errors=True)
    wall = time.time() - t0
    if replay_case is None:
        write_evidence(pid, tier, seed, coverage, getattr(plugin, "ASSUMPTIONS", []), wall, len(violations))
    for l in known_lines:
        print(l)
    for path, suffix in violations:
        print("VIOLATION property=%s replay=%s%s" % (pid, path, (" " + suffix) if suffix else ""))
    if rc == 2:
        return 2
    if not violations:
        print("OK property=%s tier=%s seed=%d evaluations=%s wall=%.1fs" % (pid, tier, seed, coverage.get("evaluations"), wall))
    return 1 if violations else 0


def _run(plugin, pid, tier, seed, work, violations, known_lines, coverage, replay_case):
    known = load_known()
    kf = {f["signature"]: f for f in known.get("findings", []) if f["property"] == pid}
    coverage.update({"obligations": 0, "discharged": 0, "checker_cmd": "", "trusted_base": TRUSTED_BASE + getattr(plugin, "TRUSTED", []),
                     "evaluations": 0, "distinct_nontrivial": 0, "rule": plugin.RULE, "samples": [],
                     "traces_validated_against_impl": 0})
    # 1. proofs
    ok, log = build_coq()
    if not ok:
        p = write_replay(pid, "coq-build", {"property": pid, "broken": "the Coq development no longer builds", "log": log})
        violations.append((p, "no-failing-input-found"))
        return 1
    gate = grep_gate()
    _t = time.time()
    phases = coverage.setdefault("phase_s", {})
    ok, info = check_props(pid, work)
    phases["proofs"] = round(time.time() - _t, 1)
    coverage.update({"obligations": info["obligations"], "discharged": info["discharged"], "checker_cmd": info["checker_cmd"],
                     "theorems": info["theorems"]})
    if gate or not ok:
        p = write_replay(pid, "proof", {"property": pid, "broken": "proof obligations of Props/%s.v" % pid, "gate": gate, "info": info})
        violations.append((p, "no-failing-input-found"))
        return 1
    # 2. harness from /repo's working tree
    _t = time.time()
    exe, log = build_harness(work)
    phases["harness_build"] = round(time.time() - _t, 1)
    if exe is None:
        p = write_replay(pid, "harness-build", {"property": pid,
                         "broken": "correspondence harness no longer builds against /repo (exported API the check relies on changed)", "log": log})
        violations.append((p, "no-failing-input-found"))
        return 1
    # 3. cases
    rng = random.Random(seed)
    if replay_case is not None:
        cases = [replay_case]
    else:
        cases = load_corpus(pid) + plugin.gen(rng, tier)
    ncorpus = len(load_corpus(pid)) if replay_case is None else 0
    phases["generate"] = round(time.time() - _t, 1)
    _t = time.time()
    results, crashed = run_harness(exe, getattr(plugin, "RUNNER", pid), cases, getattr(plugin, "HARNESS_TIMEOUT", {}).get(tier, 1500), getattr(plugin, "HARNESS_ENV", None))
    phases["implementation_run"] = round(time.time() - _t, 1)
    _t = time.time()
    terms, idxmap, errs, discarded = [], [], [], 0
    for i, (c, r) in enumerate(zip(cases, results)):
        if r is None:
            errs.append((i, "no result (harness died: %s)" % crashed))
            continue
        obs, err = r
        if err:
            if getattr(plugin, "err_is_obs", None) and plugin.err_is_obs(c, err):
                obs = plugin.err_is_obs(c, err)
            else:
                errs.append((i, err))
                continue
        if getattr(plugin, "discard", None) and plugin.discard(c, obs):
            discarded += 1
            continue
        terms.append(plugin.to_coq(c, obs))
        idxmap.append(i)
    phases["encode"] = round(time.time() - _t, 1)
    _t = time.time()
    bad = coq_eval(plugin, terms, work, "main", shard=getattr(plugin, "SHARD", 250)) if terms else {}
    phases["model_eval"] = round(time.time() - _t, 1)
    # verdict 7 = the executable engine (regex ...) disagrees with the Go library on this case: it says nothing about /repo
    discarded += sum(1 for v in bad.values() if v == 7)
    bad = {k: v for k, v in bad.items() if v != 7}
    # 4. verdicts
    nontriv = set()
    for j, i in enumerate(idxmap):
        k = plugin.nontrivial_key(cases[i], results[i][0])
        if k is not None:
            nontriv.add(k if isinstance(k, (str, int, tuple)) else json.dumps(k, sort_keys=True))
    coverage.update({"evaluations": len(cases), "distinct_nontrivial": len(nontriv), "corpus_cases": ncorpus,
                     "traces_validated_against_impl": len(terms), "discarded_engine_disagreements": discarded,
                     "harness_errors": len(errs),
                     "samples": [plugin.sample(cases[i], results[i][0]) for i in idxmap[:3]],
                     "distribution": plugin.distribution(cases) if getattr(plugin, "distribution", None) else {}})
    if getattr(plugin, "coverage_extra", None):
        coverage.update(plugin.coverage_extra([cases[i] for i in idxmap], [results[i][0] for i in idxmap]))
    seen_sig = set()
    # cases the harness never got to (it stops after three hangs) say nothing by themselves
    if any("TIMEOUT" in e for _, e in errs):
        errs = [(i, e) for i, e in errs if "no result" not in e]
    for i, e in errs[:5]:
        sig = plugin.signature(cases[i], None, 3, e) if getattr(plugin, "signature", None) else "harness-error"
        if sig in kf:
            if sig not in seen_sig:
                known_lines.append("KNOWN-FINDING: property=%s %s" % (pid, kf[sig]["what"]))
            seen_sig.add(sig)
            continue
        p = write_replay(pid, "err-%d" % i, {"property": pid, "case": cases[i], "error": e, "seed": seed, "signature": sig,
                                             "broken": "the implementation failed (panic/timeout/error) on this case"})
        violations.append((p, ""))
    for j in sorted(bad):
        i = idxmap[j]
        code = bad[j]
        case, obs = cases[i], results[i][0]
        sig = plugin.signature(case, obs, code, None) if getattr(plugin, "signature", None) else "mismatch"
        if sig in kf:
            if sig not in seen_sig:
                known_lines.append("KNOWN-FINDING: property=%s %s" % (pid, kf[sig]["what"]))
            seen_sig.add(sig)
            continue
        if sig in seen_sig:
            continue
        seen_sig.add(sig)
        if getattr(plugin, "CONFIRM", False) and replay_case is None:
            # timing-sensitive harnesses: a failure must repeat when the case is run again on its own
            again, _ = run_harness(exe, getattr(plugin, "RUNNER", pid), [case], 600, getattr(plugin, "HARNESS_ENV", None))
            if again[0] is not None and not again[0][1]:
                b2 = coq_eval(plugin, [plugin.to_coq(case, again[0][0])], work, "confirm%d" % i)
                if not b2:
                    coverage["unconfirmed_failures"] = coverage.get("unconfirmed_failures", 0) + 1
                    continue
                obs = again[0][0]
        if getattr(plugin, "shrink", None) and replay_case is None and not os.environ.get("VERIF_NOSHRINK"):
            case, obs, code = shrink(plugin, pid, exe, work, case, obs, code, sig)
        expected = coq_expected(plugin, plugin.to_coq(case, obs), work)
        p = write_replay(pid, "%s-%d" % (re.sub(r"[^A-Za-z0-9]+", "_", sig)[:40], i),
                         {"property": pid, "case": case, "observed": obs, "model_expected": expected, "verdict_code": code,
                          "seed": seed, "signature": sig,
                          "broken": plugin.BROKEN.get(code, "correspondence") if getattr(plugin, "BROKEN", None) else
                          ("property acceptor rejects the implementation's behaviour on this case" if code == 2 else
                           "implementation differs from the model on a projected observable; theorems of Props/%s.v no longer transfer" % pid),
                          "replay_cmd": "./check --replay <this file>"})
        violations.append((p, "no-failing-input-found" if code == 1 else ""))
        if len(violations) >= 5:
            break
    if len(terms) + len(errs) > 0 and discarded > 0.05 * len(cases) + 3:
        print("BROKEN-HARNESS: %d of %d cases discarded (engine disagreements)" % (discarded, len(cases)))
        return 2
    return 1 if violations else 0


def shrink(plugin, pid, exe, work, case, obs, code, sig, budget=40, seconds=90):
    """Greedy shrinking: accept a candidate if it still fails with the same signature.  Bounded in time:
    a broken implementation may make every case slow."""
    rounds = 0
    improved = True
    t_end = time.time() + seconds
    env = dict(getattr(plugin, "HARNESS_ENV", None) or {})
    env["VERIF_CASE_TIMEOUT_S"] = "6"
    while improved and rounds < budget and time.time() < t_end:
        improved = False
        cands = list(plugin.shrink(case))[:32]
        if not cands:
            break
        rounds += 1
        res, crashed = run_harness(exe, getattr(plugin, "RUNNER", pid), cands, max(10, int(t_end - time.time()) + 10), env)
        terms, idx = [], []
        for k, (c, r) in enumerate(zip(cands, res)):
            if r is None or r[1]:
                continue
            terms.append(plugin.to_coq(c, r[0]))
            idx.append(k)
        if not terms:
            break
        bad = coq_eval(plugin, terms, work, "shrink%d" % rounds)
        for j in sorted(bad):
            k = idx[j]
            if bad[j] == code and plugin.signature(cands[k], res[k][0], bad[j], None) == sig:
                case, obs = cands[k], res[k][0]
                improved = True
                break
    return case, obs, code
