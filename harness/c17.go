package main

import (
	"bytes"
	"encoding/json"
	"fmt"
	"io/ioutil"
	"net"
	"net/http"
	"net/http/httptest"
	"os"
	"path/filepath"
	"strconv"
	"strings"
	"sync"
	"time"

	"github.com/golang/snappy"
	"github.com/grafana/carbon-relay-ng/matcher"
	"github.com/grafana/carbon-relay-ng/route"
	"github.com/grafana/carbon-relay-ng/stats"
	"github.com/grafana/carbon-relay-ng/util"
	"github.com/grafana/metrictank/schema/msg"
)

type c17Case struct {
	Concurrency  int      `json:"concurrency"`
	BufSize      int      `json:"bufsize"`
	FlushMaxNum  int      `json:"flushmaxnum"`
	FlushMaxWait int      `json:"flushmaxwait_ms"`
	Blocking     bool     `json:"blocking"`
	Faults       []string `json:"faults"` // per POST to /metrics, in arrival order: ok | 400 | 500 | hang | reset | 503trunc | 200trunc ; exhausted = ok
	Lines        []string `json:"lines"`  // plain ASCII "name value ts"
	PauseEvery   int      `json:"pause_every"`
	Shutdown     bool     `json:"shutdown"` // call Shutdown at the end and report whether it returned
	// every line is handed over by a goroutine of its own (started in order, 1 ms apart), and Shutdown is called while
	// the later ones are still blocked on the full buffer of a stalled worker (blocking mode)
	ShutdownWhileBlocked bool `json:"shutdown_while_blocked,omitempty"`
}

type gnPost struct {
	Points  [][3]string `json:"points"` // name, value (as %v), time
	Outcome string      `json:"outcome"`
}

func runC17(raw json.RawMessage) (interface{}, error) {
	var c c17Case
	if err := json.Unmarshal(raw, &c); err != nil {
		return nil, err
	}
	dir, err := ioutil.TempDir("", "verifc17")
	if err != nil {
		return nil, err
	}
	defer os.RemoveAll(dir)
	sf, af := filepath.Join(dir, "storage-schemas.conf"), filepath.Join(dir, "storage-aggregation.conf")
	ioutil.WriteFile(sf, []byte("[default]\npattern = .*\nretentions = 10s:1d\n"), 0600)
	ioutil.WriteFile(af, []byte("[default]\npattern = .*\nxFilesFactor = 0.5\naggregationMethod = average\n"), 0600)

	var mu sync.Mutex
	var posts []gnPost
	faults := append([]string(nil), c.Faults...)
	srv := httptest.NewServer(http.HandlerFunc(func(w http.ResponseWriter, r *http.Request) {
		if !strings.HasSuffix(r.URL.Path, "/metrics") {
			w.WriteHeader(200) // schemas / aggregation upload
			return
		}
		body, _ := ioutil.ReadAll(r.Body)
		dec, err := ioutil.ReadAll(snappy.NewReader(bytes.NewReader(body)))
		p := gnPost{}
		if err == nil {
			var md msg.MetricData
			if md.InitFromMsg(dec) == nil && md.DecodeMetricData() == nil {
				for _, m := range md.Metrics {
					series := m.Name // the series: name plus its (sorted) tags
					if len(m.Tags) > 0 {
						series += ";" + strings.Join(m.Tags, ";")
					}
					p.Points = append(p.Points, [3]string{series, strconv.FormatFloat(m.Value, 'f', -1, 64), fmt.Sprintf("%d", m.Time)})
				}
			}
		}
		mu.Lock()
		out := "ok"
		if len(faults) > 0 {
			out, faults = faults[0], faults[1:]
		}
		p.Outcome = out
		posts = append(posts, p)
		mu.Unlock()
		switch out {
		case "ok":
			w.WriteHeader(200)
			w.Write([]byte(`{"invalid":0,"published":1}`))
		case "400":
			w.WriteHeader(400)
			w.Write([]byte("bad request"))
		case "500":
			w.WriteHeader(500)
			w.Write([]byte("boom"))
		case "hang":
			time.Sleep(400 * time.Millisecond) // longer than the client timeout
		case "503trunc", "200trunc":
			// a status line and headers announcing a body that never arrives in full: the connection is closed after 20 bytes
			if hj, ok := w.(http.Hijacker); ok {
				conn, buf, _ := hj.Hijack()
				st := "503 Service Unavailable"
				if out == "200trunc" {
					st = "200 OK"
				}
				buf.WriteString("HTTP/1.1 " + st + "\r\nContent-Type: text/plain\r\nContent-Length: 4096\r\n\r\n01234567890123456789")
				buf.Flush()
				conn.Close()
			}
		case "reset":
			if hj, ok := w.(http.Hijacker); ok {
				conn, _, _ := hj.Hijack()
				if tc, ok := conn.(*net.TCPConn); ok {
					tc.SetLinger(0)
				}
				conn.Close()
			}
		}
	}))
	defer srv.Close()

	cfg, err := route.NewGrafanaNetConfig(srv.URL+"/metrics", "apikey", sf, af)
	if err != nil {
		return nil, err
	}
	cfg.Concurrency, cfg.BufSize, cfg.FlushMaxNum = c.Concurrency, c.BufSize, c.FlushMaxNum
	cfg.FlushMaxWait = time.Duration(c.FlushMaxWait) * time.Millisecond
	cfg.Blocking = c.Blocking
	cfg.Timeout = 150 * time.Millisecond
	cfg.ErrBackoffMin = 2 * time.Millisecond
	cfg.ErrBackoffFactor = 1.2
	m, _ := matcher.New("", "", "", "", "", "")
	r, err := route.NewGrafanaNet(fresh("gn"), m, cfg)
	if err != nil {
		return nil, err
	}
	drops := stats.Counter("dest=" + util.AddrToPath(cfg.Addr) + ".unit=Metric.action=drop.reason=queue_full")
	d0 := drops.Count()
	maxDispatch := time.Duration(0)
	var dwg sync.WaitGroup
	lines := c.Lines
	if c.ShutdownWhileBlocked {
		for _, l := range c.Lines {
			dwg.Add(1)
			go func(l string) { defer dwg.Done(); r.Dispatch([]byte(l)) }(l)
			time.Sleep(time.Millisecond)
		}
		time.Sleep(30 * time.Millisecond)
		lines = nil
	}
	for i, l := range lines {
		t0 := time.Now()
		r.Dispatch([]byte(l))
		if d := time.Since(t0); d > maxDispatch {
			maxDispatch = d
		}
		if c.PauseEvery > 0 && (i+1)%c.PauseEvery == 0 {
			time.Sleep(time.Millisecond)
		}
	}
	returned := false
	if c.Shutdown {
		done := make(chan struct{})
		go func() { r.Shutdown(); close(done) }()
		select {
		case <-done:
			returned = true
		case <-time.After(8 * time.Second):
		}
		if c.ShutdownWhileBlocked {
			// every hand-over that was waiting must have been taken in by the draining worker
			back := make(chan struct{})
			go func() { dwg.Wait(); close(back) }()
			select {
			case <-back:
			case <-time.After(3 * time.Second):
				returned = false
			}
		}
	} else {
		// no shutdown: wait for the periodic flushes to carry everything out
		want := len(c.Lines) - int(drops.Count()-d0)
		waitFor(8*time.Second, func() bool {
			mu.Lock()
			defer mu.Unlock()
			n := 0
			for _, p := range posts {
				if p.Outcome == "ok" || p.Outcome == "200trunc" {
					n += len(p.Points)
				}
			}
			return n >= want
		})
	}
	mu.Lock()
	defer mu.Unlock()
	return map[string]interface{}{"posts": posts, "drops": drops.Count() - d0, "shutdown_returned": returned,
		"max_dispatch_ms": maxDispatch.Milliseconds()}, nil
}

func init() { runners["C17"] = runC17 }
