package main

import (
	"bytes"
	"encoding/json"
	"fmt"
	"sync"

	"github.com/grafana/carbon-relay-ng/stats"
)

type concPoint struct {
	Name string `json:"name"` // plain ASCII
	Ts   uint32 `json:"ts"`
}

type concCase struct {
	Kind    string        `json:"kind"`
	Threads [][]concPoint `json:"threads"`
}

// runConc: several dispatchers hammer one table (order validation on) concurrently;
// every line carries a unique value so that the capture route tells which calls were accepted.
func runConc(raw json.RawMessage) (interface{}, error) {
	var c concCase
	if err := json.Unmarshal(raw, &c); err != nil {
		return nil, err
	}
	tc := tableCase{LL: "none", LM: "none", Order: true,
		Routes: []routeSpec{{Kind: "capture"}}}
	env, err := buildTable(&tc)
	if err != nil {
		return nil, err
	}
	defer env.close()
	ooo0 := stats.Counter("unit=Err.type=out_of_order").Count()
	var wg sync.WaitGroup
	start := make(chan struct{})
	for g, th := range c.Threads {
		wg.Add(1)
		go func(g int, th []concPoint) {
			defer wg.Done()
			<-start
			for i, p := range th {
				env.tab.Dispatch([]byte(fmt.Sprintf("%s %d.%d %d", p.Name, g, i, p.Ts)))
			}
		}(g, th)
	}
	close(start)
	wg.Wait()
	ooo := stats.Counter("unit=Err.type=out_of_order").Count() - ooo0
	acc := make([][]bool, len(c.Threads))
	for g, th := range c.Threads {
		acc[g] = make([]bool, len(th))
	}
	r := env.routes[0]
	r.mu.Lock()
	for _, l := range r.got {
		f := bytes.Fields(l)
		var g, i int
		if len(f) == 3 {
			if _, err := fmt.Sscanf(string(f[1]), "%d.%d", &g, &i); err == nil && g < len(acc) && i < len(acc[g]) {
				if acc[g][i] {
					r.mu.Unlock()
					return nil, fmt.Errorf("line delivered twice: %s", l)
				}
				acc[g][i] = true
			}
		}
	}
	r.mu.Unlock()
	return map[string]interface{}{"accepted": acc, "ooo": ooo}, nil
}

func init() {
	runners["C19"] = func(raw json.RawMessage) (interface{}, error) {
		var k struct {
			Kind string `json:"kind"`
		}
		json.Unmarshal(raw, &k)
		if k.Kind == "conc" {
			return runConc(raw)
		}
		return runTable(raw)
	}
}
