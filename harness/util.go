package main

import (
	"encoding/hex"
	"fmt"
	"sync/atomic"
	"time"

	"github.com/grafana/carbon-relay-ng/stats"
)

var uniq int64

// fresh returns a process-unique suffix: the go-metrics registry is global, so
// every case uses fresh route keys and compares counter deltas.
func fresh(prefix string) string {
	return fmt.Sprintf("%s%d", prefix, atomic.AddInt64(&uniq, 1))
}

func hx(b []byte) string { return hex.EncodeToString(b) }
func unhx(s string) []byte {
	b, err := hex.DecodeString(s)
	if err != nil {
		panic(err)
	}
	return b
}

func destDropNoConn(key string) int64 {
	return stats.Counter("dest=" + key + ".unit=Metric.action=drop.reason=conn_down_no_spool").Count()
}
func destDropSlowConn(key string) int64 {
	return stats.Counter("dest=" + key + ".unit=Metric.action=drop.reason=slow_conn").Count()
}
func destDropSlowSpool(key string) int64 {
	return stats.Counter("dest=" + key + ".unit=Metric.action=drop.reason=slow_spool").Count()
}

// waitFor polls cond until it holds or the deadline passes.
func waitFor(d time.Duration, cond func() bool) bool {
	deadline := time.Now().Add(d)
	for i := 0; ; i++ {
		if cond() {
			return true
		}
		if time.Now().After(deadline) {
			return false
		}
		if i < 100 {
			time.Sleep(20 * time.Microsecond)
		} else {
			time.Sleep(time.Millisecond)
		}
	}
}
