package main

import (
	"encoding/json"
	"fmt"
	"io/ioutil"
	"os"
	"time"

	dest "github.com/grafana/carbon-relay-ng/destination"
	"github.com/grafana/carbon-relay-ng/matcher"
)

type c07Step struct {
	Op string `json:"op"` // send | down | up | wait_offline | wait_online | sleep | mode
	N  int    `json:"n,omitempty"`
	M  string `json:"m,omitempty"` // mode: how the endpoint treats connections accepted from the next "up" on (read | blackhole)
}

type c07Case struct {
	Steps        []c07Step `json:"steps"`
	StartUp      bool      `json:"start_up"`    // endpoint listening before the destination starts
	KeepSafeMs   int       `json:"keepsafe_ms"` // 0 = the default 10 s
	ConnBuf      int       `json:"connbuf"`
	IOBuf        int       `json:"iobuf"`
	SpoolBuf     int       `json:"spoolbuf"`
	PaceUs       int       `json:"pace_us"` // pause after every line
	FileBytes    int64     `json:"file_bytes"`
	SpoolSleepUs int       `json:"spool_sleep_us"` // 0 = 10 (the documented default is 500)
	Size         int       `json:"size"`           // bytes per line (0 = 40)
}

func runC07(raw json.RawMessage) (interface{}, error) {
	var c c07Case
	if err := json.Unmarshal(raw, &c); err != nil {
		return nil, err
	}
	dir, err := ioutil.TempDir("", "verifc07")
	if err != nil {
		return nil, err
	}
	defer os.RemoveAll(dir)
	if c.KeepSafeMs > 0 {
		dest.VerifSetKeepSafe(time.Duration(c.KeepSafeMs) * time.Millisecond)
	} else {
		dest.VerifSetKeepSafe(10 * time.Second)
	}
	ep, err := newEndpoint("read", true)
	if err != nil {
		return nil, err
	}
	defer ep.down()
	if c.StartUp {
		if err := ep.up(); err != nil {
			return nil, err
		}
	}
	spoolSleep := c.SpoolSleepUs
	if spoolSleep == 0 {
		spoolSleep = 10
	}
	m, _ := matcher.New("", "", "", "", "", "")
	d, err := dest.New(fresh("c07r"), m, ep.addr, dir, true, false, 5*time.Millisecond, 20*time.Millisecond, c.ConnBuf, c.IOBuf,
		c.SpoolBuf, c.FileBytes, 100, 50*time.Millisecond, time.Duration(spoolSleep)*time.Microsecond, 10*time.Microsecond)
	if err != nil {
		return nil, err
	}
	d.Run()
	online := func(want bool) bool {
		return waitFor(4*time.Second, func() bool { return d.Snapshot().Online == want })
	}
	if c.StartUp && !online(true) {
		return nil, fmt.Errorf("destination did not come online")
	}
	size := c.Size
	if size == 0 {
		size = 40
	}
	sent := 0
	var maxIn time.Duration
	isUp := c.StartUp
	for _, st := range c.Steps {
		switch st.Op {
		case "send":
			for i := 0; i < st.N; i++ {
				t0 := time.Now()
				d.In <- mkLine(sent, size)
				if dt := time.Since(t0); dt > maxIn {
					maxIn = dt
				}
				sent++
				if c.PaceUs >= 1000 {
					time.Sleep(time.Duration(c.PaceUs) * time.Microsecond)
				} else if c.PaceUs > 0 {
					// time.Sleep cannot pace below a millisecond here: spin
					for until := t0.Add(time.Duration(c.PaceUs) * time.Microsecond); time.Now().Before(until); {
					}
				}
			}
		case "down":
			ep.down()
			isUp = false
		case "up":
			if err := ep.up(); err != nil {
				return nil, err
			}
			isUp = true
		case "wait_offline":
			if !online(false) {
				return nil, fmt.Errorf("destination did not notice the outage")
			}
		case "wait_online":
			if !online(true) {
				return nil, fmt.Errorf("destination did not reconnect")
			}
		case "sleep":
			time.Sleep(time.Duration(st.N) * time.Millisecond)
		case "mode":
			ep.mu.Lock()
			ep.mode = st.M
			ep.mu.Unlock()
		}
	}
	if !isUp {
		if err := ep.up(); err != nil {
			return nil, err
		}
	}
	if !online(true) {
		return nil, fmt.Errorf("destination did not reconnect at the end")
	}
	// the endpoint now stays up: wait for the backlog to drain and the set of received lines to stop growing
	distinct := func() int {
		ep.mu.Lock()
		defer ep.mu.Unlock()
		return len(ep.seen)
	}
	// (the interesting lines can arrive at the end of a long replay of lines the endpoint already has: watch the
	// total number of lines received, duplicates included)
	last, lastChange := ep.received(), time.Now()
	deadline := time.Now().Add(20 * time.Second)
	for time.Now().Before(deadline) {
		time.Sleep(20 * time.Millisecond)
		if n := ep.received(); n != last {
			last, lastChange = n, time.Now()
		}
		if distinct() >= sent && d.VerifSpoolBacklog() == 0 {
			break
		}
		if time.Since(lastChange) > 2*time.Second && d.VerifSpoolBacklog() == 0 {
			break
		}
	}
	time.Sleep(20 * time.Millisecond)
	backlog := d.VerifSpoolBacklog()
	ep.mu.Lock()
	missing, foreign, dups := 0, 0, 0
	want := map[string]bool{}
	for i := 0; i < sent; i++ {
		l := string(mkLine(i, size))
		want[l] = true
		if ep.seen[l] == 0 {
			missing++
		} else if ep.seen[l] > 1 {
			dups++
		}
	}
	for l := range ep.seen {
		if !want[l] {
			foreign++
		}
	}
	ep.mu.Unlock()
	out := map[string]interface{}{"sent": sent, "missing": missing, "foreign": foreign, "duplicated": dups, "backlog": backlog,
		"slow": destDropSlowConn(d.Key), "slowspool": destDropSlowSpool(d.Key), "noconn": destDropNoConn(d.Key),
		"log": hx(d.VerifLog(true)), "max_in_us": maxIn.Microseconds()}
	done := make(chan struct{})
	go func() { d.Shutdown(); close(done) }()
	select {
	case <-done:
	case <-time.After(3 * time.Second):
	}
	return out, nil
}

func init() { runners["C07"] = runC07 }
