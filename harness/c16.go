package main

import (
	"bytes"
	"encoding/json"
	"fmt"
	"io/ioutil"
	"math"
	"net/http"
	"net/http/httptest"
	"os"
	"path/filepath"
	"regexp"
	"strconv"
	"strings"
	"sync"
	"time"

	"github.com/golang/snappy"
	dest "github.com/grafana/carbon-relay-ng/destination"
	"github.com/grafana/carbon-relay-ng/matcher"
	"github.com/grafana/carbon-relay-ng/persister"
	"github.com/grafana/carbon-relay-ng/route"
	"github.com/grafana/carbon-relay-ng/stats"
	"github.com/grafana/metrictank/schema"
	"github.com/grafana/metrictank/schema/msg"
)

type c16Case struct {
	Schemas    string   `json:"schemas"` // hex: storage-schemas.conf content
	Org        int      `json:"org"`
	Lines      []string `json:"lines"`    // hex
	Probes     []string `json:"probes"`   // hex: per line, the name as Graphite presents it (computed by the generator)
	Patterns   []string `json:"patterns"` // rule patterns in file order (regexp oracle)
	LivePickle bool     `json:"live_pickle"`
	LiveGN     bool     `json:"live_gn"`
}

type c16MD struct {
	Name     string   `json:"name"` // hex
	Tags     []string `json:"tags"` // hex
	Val      string   `json:"val"`  // float64 bits, decimal
	Time     int64    `json:"time"`
	Org      int      `json:"org"`
	Interval int      `json:"interval"`
	Mtype    string   `json:"mtype"`
	Unit     string   `json:"unit"`
}

type c16Line struct {
	ValOk   bool   `json:"val_ok"`
	ValBits string `json:"val_bits"`
	Match   []bool `json:"match"`
	DpOk    bool   `json:"dp_ok"`
	Frame   string `json:"frame"`
	MdOk    bool   `json:"md_ok"`
	MdPanic bool   `json:"md_panic"`
	MD      *c16MD `json:"md,omitempty"`
}

func mdObs(m *schema.MetricData) *c16MD {
	o := &c16MD{Name: hx([]byte(m.Name)), Val: strconv.FormatUint(math.Float64bits(m.Value), 10), Time: m.Time,
		Org: m.OrgId, Interval: m.Interval, Mtype: m.Mtype, Unit: m.Unit, Tags: []string{}}
	for _, t := range m.Tags {
		o.Tags = append(o.Tags, hx([]byte(t)))
	}
	return o
}

func c16Load(file string) (s persister.WhisperSchemas, err error) {
	defer func() {
		if r := recover(); r != nil {
			err = fmt.Errorf("PANIC: %v", r)
		}
	}()
	return route.VerifGetSchemas(file)
}

func c16Parse(buf []byte, s persister.WhisperSchemas, org int) (md *schema.MetricData, err error, panicked bool) {
	defer func() {
		if r := recover(); r != nil {
			err, panicked = fmt.Errorf("PANIC: %v", r), true
		}
	}()
	md, err = route.VerifParseMetric(buf, s, org)
	return
}

func runC16(raw json.RawMessage) (interface{}, error) {
	var c c16Case
	if err := json.Unmarshal(raw, &c); err != nil {
		return nil, err
	}
	dir, err := ioutil.TempDir("", "verifc16")
	if err != nil {
		return nil, err
	}
	defer os.RemoveAll(dir)
	sf, af := filepath.Join(dir, "storage-schemas.conf"), filepath.Join(dir, "storage-aggregation.conf")
	ioutil.WriteFile(sf, unhx(c.Schemas), 0600)
	ioutil.WriteFile(af, []byte("[default]\npattern = .*\nxFilesFactor = 0.5\naggregationMethod = average\n"), 0600)

	out := map[string]interface{}{}
	schemas, lerr := c16Load(sf)
	out["load_ok"] = lerr == nil
	if lerr != nil {
		out["load_err"] = lerr.Error()
	}
	var res []*regexp.Regexp
	for _, p := range c.Patterns {
		re, e := regexp.Compile(p)
		if e != nil {
			re = nil
		}
		res = append(res, re)
	}
	lines := []c16Line{}
	for i, lh := range c.Lines {
		line := unhx(lh)
		var o c16Line
		f := strings.Fields(string(line))
		if len(f) == 3 {
			v, e := strconv.ParseFloat(f[1], 64)
			o.ValOk, o.ValBits = e == nil, strconv.FormatUint(math.Float64bits(v), 10)
		} else {
			o.ValBits = "0"
		}
		probe := string(unhx(c.Probes[i]))
		o.Match = []bool{}
		for _, re := range res {
			o.Match = append(o.Match, re != nil && re.MatchString(probe))
		}
		dp, e := dest.ParseDataPoint(append([]byte(nil), line...))
		if e == nil {
			o.DpOk = true
			o.Frame = hx(dest.Pickle(dp))
		}
		if lerr == nil {
			md, e, p := c16Parse(append([]byte(nil), line...), schemas, c.Org)
			o.MdPanic = p
			if e == nil && md != nil {
				o.MdOk = true
				o.MD = mdObs(md)
			}
		}
		lines = append(lines, o)
	}
	out["lines"] = lines

	if c.LivePickle {
		s, err := newSink(0)
		if err != nil {
			return nil, err
		}
		defer s.close()
		m, _ := matcher.New("", "", "", "", "", "")
		d, err := dest.New(fresh("c16r"), m, s.ln.Addr().String(), "/nonexistent-spool", false, true,
			5*time.Millisecond, time.Hour, 30000, 2000000, 10, 1000, 10, time.Hour, time.Millisecond, time.Millisecond)
		if err != nil {
			return nil, err
		}
		d.Run()
		select {
		case <-d.WaitOnline():
		case <-time.After(3 * time.Second):
			d.Shutdown()
			return nil, fmt.Errorf("destination did not come online")
		}
		bad := stats.Counter("dest=" + d.Key + ".unit=Metric.action=drop.reason=bad_pickle")
		slow := stats.Counter("dest=" + d.Key + ".unit=Metric.action=drop.reason=slow_conn")
		b0, s0 := bad.Count(), slow.Count()
		want := 0
		for i, lh := range c.Lines {
			d.In <- unhx(lh)
			if lines[i].DpOk {
				want += len(lines[i].Frame) / 2
			}
			if i%50 == 49 {
				time.Sleep(time.Millisecond)
			}
		}
		waitFor(5*time.Second, func() bool { return len(s.bytes()) >= want && int(bad.Count()-b0) >= len(c.Lines)-countDp(lines) })
		time.Sleep(12 * time.Millisecond)
		d.Shutdown()
		out["live"] = map[string]interface{}{"received": hx(s.bytes()), "bad_pickle": bad.Count() - b0, "slow": slow.Count() - s0}
	}

	if c.LiveGN && lerr == nil {
		var mu sync.Mutex
		pts := []*c16MD{}
		srv := httptest.NewServer(http.HandlerFunc(func(w http.ResponseWriter, r *http.Request) {
			if !strings.HasSuffix(r.URL.Path, "/metrics") {
				w.WriteHeader(200)
				return
			}
			body, _ := ioutil.ReadAll(r.Body)
			dec, err := ioutil.ReadAll(snappy.NewReader(bytes.NewReader(body)))
			if err == nil {
				var md msg.MetricData
				if md.InitFromMsg(dec) == nil && md.DecodeMetricData() == nil {
					mu.Lock()
					for _, m := range md.Metrics {
						pts = append(pts, mdObs(m))
					}
					mu.Unlock()
				}
			}
			w.WriteHeader(200)
			w.Write([]byte(`{"invalid":0,"published":1}`))
		}))
		defer srv.Close()
		cfg, err := route.NewGrafanaNetConfig(srv.URL+"/metrics", "apikey", sf, af)
		if err != nil {
			return nil, err
		}
		cfg.Concurrency, cfg.BufSize, cfg.FlushMaxNum, cfg.FlushMaxWait = 1, 10000, 50, 10*time.Millisecond
		cfg.Blocking, cfg.OrgID = true, c.Org
		cfg.Timeout, cfg.ErrBackoffMin = time.Second, 2*time.Millisecond
		m, _ := matcher.New("", "", "", "", "", "")
		r, err := route.NewGrafanaNet(fresh("gn16"), m, cfg)
		if err != nil {
			return nil, err
		}
		for _, lh := range c.Lines {
			r.Dispatch(unhx(lh))
		}
		done := make(chan struct{})
		go func() { r.Shutdown(); close(done) }()
		select {
		case <-done:
		case <-time.After(8 * time.Second):
			return nil, fmt.Errorf("grafanaNet shutdown did not return")
		}
		mu.Lock()
		out["gn"] = pts
		mu.Unlock()
	}
	return out, nil
}

func countDp(l []c16Line) int {
	n := 0
	for _, x := range l {
		if x.DpOk {
			n++
		}
	}
	return n
}

func init() { runners["C16"] = runC16 }
