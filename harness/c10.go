package main

import (
	"encoding/json"
	"math"
	"strconv"
	"sync/atomic"
	"time"

	"github.com/grafana/carbon-relay-ng/aggregator"
	"github.com/grafana/carbon-relay-ng/stats"
)

type aggEvent struct {
	T    string `json:"t"` // p | tick
	Name string `json:"name,omitempty"`
	Val  string `json:"val,omitempty"`
	Ts   uint32 `json:"ts,omitempty"`
	Now  int64  `json:"now"`
}

type aggCase struct {
	A      aggSpec    `json:"a"`
	Events []aggEvent `json:"events"`
}

type aggEvObs struct {
	Out    []string `json:"out"`    // emitted lines (hex), in emission order
	TooOld int64    `json:"tooold"` // delta of the TooOld counter
	In     int64    `json:"in"`     // delta of the aggregator's direction=in counter
	Bits   string   `json:"bits"`   // float64 bits of the parsed value (decimal), oracle
}

func runAgg(raw json.RawMessage) (interface{}, error) {
	aggInitOnce.Do(func() { aggregator.InitMetrics() })
	var c aggCase
	if err := json.Unmarshal(raw, &c); err != nil {
		return nil, err
	}
	m, err := c.A.M.build()
	if err != nil {
		return nil, err
	}
	var clock int64
	tick := make(chan time.Time)
	out := make(chan []byte, 200000)
	ag, err := aggregator.NewMocked(c.A.Fun, m, c.A.OutFmt, c.A.Cache, c.A.Interval, c.A.Wait, c.A.DropRaw, out, 0,
		func() time.Time { return time.Unix(atomic.LoadInt64(&clock), 0) }, tick)
	if err != nil {
		return nil, err
	}
	tooOld := stats.Counter("module=aggregator.unit=Metric.what=TooOld")
	numIn := stats.Counter("unit=Metric.direction=in.aggregator=" + ag.Key)
	var res []aggEvObs
	for _, ev := range c.Events {
		var o aggEvObs
		t0, i0 := tooOld.Count(), numIn.Count()
		atomic.StoreInt64(&clock, ev.Now)
		switch ev.T {
		case "p":
			v, err := strconv.ParseFloat(ev.Val, 64)
			if err != nil {
				return nil, err
			}
			o.Bits = strconv.FormatUint(math.Float64bits(v), 10)
			fields := [][]byte{[]byte(ev.Name), []byte(ev.Val), []byte(strconv.FormatUint(uint64(ev.Ts), 10))}
			ag.AddMaybe(fields, v, ev.Ts)
		case "tick":
			tick <- time.Unix(ev.Now, 0)
		}
		ag.Snapshot() // the aggregator goroutine is back in its select: the event was processed completely
		o.Out = []string{}
	drain:
		for {
			select {
			case l := <-out:
				o.Out = append(o.Out, hx(l))
			default:
				break drain
			}
		}
		o.TooOld, o.In = tooOld.Count()-t0, numIn.Count()-i0
		res = append(res, o)
	}
	// shutdown flushes with the mocked clock; not part of the compared history
	go func() {
		for range out {
		}
	}()
	ag.Shutdown()
	return res, nil
}

func init() { runners["C10"] = runAgg }
