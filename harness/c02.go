package main

import (
	"bytes"
	"encoding/json"
	"strconv"

	"github.com/grafana/carbon-relay-ng/validate"
	m20 "github.com/metrics20/go-metrics20/carbon20"
)

type validateCase struct {
	Kind  string   `json:"kind"`
	LL    string   `json:"ll"`
	LM    string   `json:"lm"`
	Lines []string `json:"lines"` // hex
}

type validateObs struct {
	Rejected bool       `json:"rejected"` // level name not accepted
	Res      [][]string `json:"res"`      // key(hex), err text ("" = valid)
	ValOk    []bool     `json:"val_ok"`
	TsOk     []bool     `json:"ts_ok"`
}

func runValidate(raw json.RawMessage) (interface{}, error) {
	var c validateCase
	if err := json.Unmarshal(raw, &c); err != nil {
		return nil, err
	}
	var ll validate.LevelLegacy
	var lm validate.LevelM20
	if ll.UnmarshalText([]byte(c.LL)) != nil || lm.UnmarshalText([]byte(c.LM)) != nil {
		return validateObs{Rejected: true}, nil
	}
	var o validateObs
	for _, l := range c.Lines {
		line := unhx(l)
		key, _, _, err := m20.ValidatePacket(append([]byte(nil), line...), ll.Level, lm.Level)
		e := ""
		if err != nil {
			e = err.Error()
		}
		o.Res = append(o.Res, []string{hx(key), e})
		f := bytes.Fields(line)
		vo, to := false, false
		if len(f) == 3 {
			_, e1 := strconv.ParseFloat(string(f[1]), 64)
			_, e2 := strconv.ParseFloat(string(f[2]), 64)
			vo, to = e1 == nil, e2 == nil
		}
		o.ValOk = append(o.ValOk, vo)
		o.TsOk = append(o.TsOk, to)
	}
	return o, nil
}

func init() {
	runners["C02"] = func(raw json.RawMessage) (interface{}, error) {
		var k struct {
			Kind string `json:"kind"`
		}
		json.Unmarshal(raw, &k)
		if k.Kind == "validate" {
			return runValidate(raw)
		}
		return runTable(raw)
	}
}
