package main

import (
	"encoding/json"
	"regexp"

	"github.com/grafana/carbon-relay-ng/matcher"
)

type matcherCase struct {
	Kind  string   `json:"kind"`
	M     mSpec    `json:"m"`
	Names []string `json:"names"` // hex
}

type matcherObs struct {
	Rejected  bool     `json:"rejected"`
	Prefix    string   `json:"prefix"`    // regexToPrefix(regex), hex
	NotPrefix string   `json:"notprefix"` // regexToPrefix(notRegex), hex
	Match     []bool   `json:"match"`
	PreMatch  []bool   `json:"prematch"`
	Re        []bool   `json:"re"`    // Go regexp on regex (oracle)
	NotRe     []bool   `json:"notre"` // Go regexp on notRegex (oracle)
}

func runMatcher(raw json.RawMessage) (interface{}, error) {
	var c matcherCase
	if err := json.Unmarshal(raw, &c); err != nil {
		return nil, err
	}
	m, err := c.M.build()
	if err != nil {
		return matcherObs{Rejected: true}, nil
	}
	o := matcherObs{Prefix: hx(matcher.VerifRegexToPrefix(c.M.Regex)), NotPrefix: hx(matcher.VerifRegexToPrefix(c.M.NotRegex))}
	var re, nre *regexp.Regexp
	if c.M.Regex != "" {
		re = regexp.MustCompile(c.M.Regex)
	}
	if c.M.NotRegex != "" {
		nre = regexp.MustCompile(c.M.NotRegex)
	}
	for _, n := range c.Names {
		b := unhx(n)
		o.Match = append(o.Match, m.Match(b))
		o.PreMatch = append(o.PreMatch, m.PreMatch(b))
		o.Re = append(o.Re, re != nil && re.Match(b))
		o.NotRe = append(o.NotRe, nre != nil && nre.Match(b))
	}
	return o, nil
}

func init() {
	runners["MATCHER"] = runMatcher
	runners["C03"] = func(raw json.RawMessage) (interface{}, error) {
		var k struct {
			Kind string `json:"kind"`
		}
		json.Unmarshal(raw, &k)
		if k.Kind == "matcher" {
			return runMatcher(raw)
		}
		return runTable(raw)
	}
}
