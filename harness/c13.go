package main

import (
	"encoding/json"
	"math"
	"strconv"
	"sync"

	"github.com/grafana/carbon-relay-ng/input"
)

// eventDispatcher records Dispatch and IncNumInvalid calls in the order they happen.
type eventDispatcher struct {
	mu     sync.Mutex
	events []map[string]interface{}
}

func (c *eventDispatcher) Dispatch(buf []byte) {
	c.mu.Lock()
	c.events = append(c.events, map[string]interface{}{"l": hx(buf)})
	c.mu.Unlock()
}
func (c *eventDispatcher) IncNumInvalid() {
	c.mu.Lock()
	c.events = append(c.events, map[string]interface{}{"inv": 1})
	c.mu.Unlock()
}

type c13Case struct {
	Script []readStep `json:"script"`
	Probes []string   `json:"probes"` // hex: texts whose strconv.ParseFloat value the model needs (FLOAT opcode arguments)
}

func runC13(raw json.RawMessage) (interface{}, error) {
	var c c13Case
	if err := json.Unmarshal(raw, &c); err != nil {
		return nil, err
	}
	d := &eventDispatcher{events: []map[string]interface{}{}}
	err := input.NewPickle(d).Handle(&scriptReader{steps: c.Script})
	probes := []map[string]interface{}{}
	for _, p := range c.Probes {
		v, e := strconv.ParseFloat(string(unhx(p)), 64)
		probes = append(probes, map[string]interface{}{"ok": e == nil, "bits": strconv.FormatUint(math.Float64bits(v), 10)})
	}
	out := map[string]interface{}{"events": d.events, "err": err != nil, "probes": probes}
	if err != nil {
		out["errtext"] = err.Error()
	}
	return out, nil
}

func init() { runners["C13"] = runC13 }
