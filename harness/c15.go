package main

import (
	"encoding/json"
	"fmt"
	"net"
	"sync"
	"time"

	dest "github.com/grafana/carbon-relay-ng/destination"
	"github.com/grafana/carbon-relay-ng/matcher"
	"github.com/grafana/carbon-relay-ng/route"
)

type c15Op struct {
	Op   string `json:"op"` // add | del | q | mod (modDest addr=: the destination is re-pointed to a live listener, which is then closed)
	Inst string `json:"inst,omitempty"`
	Addr string `json:"addr,omitempty"`
	Idx  int    `json:"idx,omitempty"`
	Name string `json:"name,omitempty"` // hex
}

type c15Case struct {
	Addrs []string `json:"addrs"`
	Ops   []c15Op  `json:"ops"`
}

func deadDest(routeName, addr string) (*dest.Destination, error) {
	m, _ := matcher.New("", "", "", "", "", "")
	return dest.New(routeName, m, addr, "/nonexistent-spool", false, false,
		time.Hour, time.Hour, 10, 1000, 10, 1000, 10, time.Hour, time.Millisecond, time.Millisecond)
}

func init() {
	runners["C15"] = func(raw json.RawMessage) (interface{}, error) {
		var c c15Case
		if err := json.Unmarshal(raw, &c); err != nil {
			return nil, err
		}
		rn := fresh("c15r")
		var dests []*dest.Destination
		for _, a := range c.Addrs {
			d, err := deadDest(rn, a)
			if err != nil {
				return nil, err
			}
			dests = append(dests, d)
		}
		m, _ := matcher.New("", "", "", "", "", "")
		// the route keeps (and appends to / deletes from) its own slice
		own := append([]*dest.Destination(nil), dests...)
		r, err := route.NewConsistentHashing(rn, m, own)
		if err != nil {
			return nil, err
		}
		defer r.Shutdown()
		ch := r.(*route.ConsistentHashing)
		counts := func() []int64 {
			out := make([]int64, len(dests))
			for i, d := range dests {
				out[i] = destDropNoConn(d.Key)
			}
			return out
		}
		res := []interface{}{}
		for _, op := range c.Ops {
			switch op.Op {
			case "add":
				d, err := deadDest(rn, op.Addr)
				if err != nil {
					return nil, err
				}
				ch.Add(d)
				dests = append(dests, d)
				res = append(res, "ok")
			case "del":
				err := ch.DelDestination(op.Idx)
				if err != nil {
					res = append(res, "err")
				} else {
					dests = append(append([]*dest.Destination(nil), dests[:op.Idx]...), dests[op.Idx+1:]...)
					res = append(res, "ok")
				}
			case "mod":
				if op.Idx >= len(dests) {
					if ch.UpdateDestination(op.Idx, map[string]string{"addr": "127.0.0.1:1"}) != nil {
						res = append(res, "err")
					} else {
						res = append(res, "ok")
					}
					break
				}
				ln, err := net.Listen("tcp", "127.0.0.1:0")
				if err != nil {
					return nil, err
				}
				var conns []net.Conn
				var cmu sync.Mutex
				go func() {
					for {
						cn, err := ln.Accept()
						if err != nil {
							return
						}
						cmu.Lock()
						conns = append(conns, cn)
						cmu.Unlock()
					}
				}()
				newAddr := ln.Addr().String()
				if op.Inst != "" {
					newAddr += ":" + op.Inst
				}
				d := dests[op.Idx]
				if err := ch.UpdateDestination(op.Idx, map[string]string{"addr": newAddr}); err != nil {
					ln.Close()
					return nil, err
				}
				if !waitFor(3*time.Second, func() bool { return d.Snapshot().Online }) {
					ln.Close()
					return nil, fmt.Errorf("re-pointed destination did not connect")
				}
				// the endpoint goes away again: the destination is offline from now on (reconnect period: one hour) and every
				// line it is given is counted under its new key
				ln.Close()
				cmu.Lock()
				for _, cn := range conns {
					cn.Close()
				}
				cmu.Unlock()
				time.Sleep(50 * time.Millisecond)
				d.In <- []byte("verif.c15.sacrificial 1 1") // the line that makes the relay loop notice the dead conn
				if !waitFor(3*time.Second, func() bool { return !d.Snapshot().Online }) {
					return nil, fmt.Errorf("re-pointed destination did not go offline")
				}
				time.Sleep(20 * time.Millisecond)
				res = append(res, "ok:"+newAddr)
			case "q":
				before := counts()
				line := append(unhx(op.Name), []byte(" 1 1")...)
				r.Dispatch(line)
				got := -1
				var after []int64
				ok := waitFor(5*time.Second, func() bool {
					after = counts()
					n := 0
					for i := range after {
						if after[i] != before[i] {
							n++
							got = i
						}
					}
					return n > 0
				})
				if !ok {
					res = append(res, -1)
					continue
				}
				// settle: make sure exactly one counter moved, by exactly one
				time.Sleep(200 * time.Microsecond)
				after = counts()
				moved := 0
				for i := range after {
					moved += int(after[i] - before[i])
				}
				if moved != 1 {
					return nil, fmt.Errorf("query moved %d counters", moved)
				}
				res = append(res, got)
			}
		}
		return res, nil
	}
}
