package main

// C14: each sub-case runs a real relay (table, admin TCP interface, plain/pickle/UDP listeners, routes into a
// loopback sink) in a child process; the parent reports whether the child survived.

import (
	"bytes"
	"encoding/json"
	"fmt"
	"io/ioutil"
	"net"
	"os"
	"os/exec"
	"path/filepath"
	"strconv"
	"strings"
	"sync"
	"syscall"
	"time"

	"github.com/BurntSushi/toml"
	"github.com/grafana/carbon-relay-ng/aggregator"
	"github.com/grafana/carbon-relay-ng/cfg"
	"github.com/grafana/carbon-relay-ng/input"
	"github.com/grafana/carbon-relay-ng/table"
	"github.com/grafana/carbon-relay-ng/ui/telnet"
)

type c14Input struct {
	Kind string `json:"kind"` // plain_tcp | plain_udp | pickle_tcp | pickle_udp
	B    string `json:"b"`    // hex
}

type c14Sub struct {
	Toml   string     `json:"toml"`
	Cmds   []string   `json:"cmds"`   // sent to the admin TCP interface, one per write
	Lines  []string   `json:"lines"`  // metric traffic through the plain TCP input
	Inputs []c14Input `json:"inputs"` // raw bytes for the inputs
	Dels   []c14Del   `json:"dels"`   // Table.DelDestination calls (what the http api does), after the commands
	WaitMs int        `json:"wait_ms"`
	// address-space limit for the child (RLIMIT_AS, in KiB; 0 = none): a relay on a machine without spare gigabytes
	RlimitKB uint64 `json:"rlimit_kb"`
}

type c14Del struct {
	Key   string `json:"key"`
	Index int    `json:"index"`
}

type c14Case struct {
	Subs []c14Sub `json:"subs"`
}

type c14Res struct {
	Exit    int             `json:"exit"`
	Timeout bool            `json:"timeout"`
	Stderr  string          `json:"stderr"`
	Out     json.RawMessage `json:"out,omitempty"`
}

func runC14(raw json.RawMessage) (interface{}, error) {
	var c c14Case
	if err := json.Unmarshal(raw, &c); err != nil {
		return nil, err
	}
	res := make([]c14Res, len(c.Subs))
	sem := make(chan struct{}, 12)
	var wg sync.WaitGroup
	for i := range c.Subs {
		wg.Add(1)
		go func(i int) {
			defer wg.Done()
			sem <- struct{}{}
			defer func() { <-sem }()
			in, _ := json.Marshal(c.Subs[i])
			cmd := exec.Command(os.Args[0], "C14child")
			cmd.Stdin = bytes.NewReader(in)
			var so, se bytes.Buffer
			cmd.Stdout, cmd.Stderr = &so, &se
			if err := cmd.Start(); err != nil {
				res[i] = c14Res{Exit: -1, Stderr: err.Error()}
				return
			}
			done := make(chan error, 1)
			go func() { done <- cmd.Wait() }()
			r := c14Res{}
			select {
			case err := <-done:
				if err != nil {
					r.Exit = 1
					if ee, ok := err.(*exec.ExitError); ok {
						r.Exit = ee.ExitCode()
					}
				}
			case <-time.After(time.Duration(c.Subs[i].WaitMs+10000) * time.Millisecond):
				// ask the Go runtime for a goroutine dump before giving up on the child
				cmd.Process.Signal(syscall.SIGQUIT)
				select {
				case <-done:
				case <-time.After(2 * time.Second):
					cmd.Process.Kill()
				}
				r.Timeout, r.Exit = true, -2
			}
			s := se.String()
			if r.Timeout {
				if len(s) > 12000 {
					s = s[:12000]
				}
				r.Stderr = s
				res[i] = r
				return
			}
			if k := strings.Index(s, "panic:"); k >= 0 {
				s = s[k:]
			} else if k := strings.Index(s, "fatal error:"); k >= 0 {
				s = s[k:]
			}
			if len(s) > 1500 {
				s = s[:1500]
			}
			r.Stderr = s
			if o := bytes.TrimSpace(so.Bytes()); len(o) > 0 && json.Valid(o) {
				r.Out = json.RawMessage(o)
			}
			res[i] = r
		}(i)
	}
	wg.Wait()
	return map[string]interface{}{"subs": res}, nil
}

func freePort() string {
	l, _ := net.Listen("tcp", "127.0.0.1:0")
	a := l.Addr().String()
	l.Close()
	return a
}

func c14Child() {
	data, _ := ioutil.ReadAll(os.Stdin)
	var c c14Sub
	if err := json.Unmarshal(data, &c); err != nil {
		fmt.Println(`{"error":"bad case"}`)
		os.Exit(0)
	}
	if c.RlimitKB > 0 {
		lim := syscall.Rlimit{Cur: c.RlimitKB * 1024, Max: c.RlimitKB * 1024}
		syscall.Setrlimit(syscall.RLIMIT_AS, &lim)
	}
	realOut := os.Stdout
	if devnull, e := os.OpenFile(os.DevNull, os.O_WRONLY, 0); e == nil {
		os.Stdout = devnull
	}
	emit := func(v interface{}) {
		b, _ := json.Marshal(v)
		realOut.Write(append(b, '\n'))
	}
	dir, _ := ioutil.TempDir("", "verifc14")
	defer os.RemoveAll(dir)
	ioutil.WriteFile(filepath.Join(dir, "storage-schemas.conf"), []byte("[default]\npattern = .*\nretentions = 10s:1d\n"), 0600)
	ioutil.WriteFile(filepath.Join(dir, "storage-aggregation.conf"), []byte("[default]\npattern = .*\nxFilesFactor = 0.5\naggregationMethod = average\n"), 0600)
	ioutil.WriteFile(filepath.Join(dir, "schemas-zero.conf"), []byte("[default]\npattern = .*\nretentions = 0s:1d\n"), 0600)
	// a sink for the routes' destinations
	sink, _ := net.Listen("tcp", "127.0.0.1:0")
	go func() {
		for {
			cn, err := sink.Accept()
			if err != nil {
				return
			}
			go func() {
				buf := make([]byte, 65536)
				for {
					if _, e := cn.Read(buf); e != nil {
						return
					}
				}
			}()
		}
	}()
	dead := freePort()
	fix := func(s string) string {
		s = strings.Replace(s, "@DIR@", dir, -1)
		s = strings.Replace(s, "@SINK@", sink.Addr().String(), -1)
		return strings.Replace(s, "@DEAD@", dead, -1)
	}
	conf := cfg.NewConfig()
	conf.Bad_metrics_max_age = "24h"
	conf.Spool_dir = dir
	extra := "\nspool_dir = \"" + dir + "\"\n"
	if !strings.Contains(c.Toml, "bad_metrics_max_age") {
		extra += "bad_metrics_max_age = \"24h\"\n"
	}
	// top-level keys must precede the first table: put them in front
	meta, err := toml.Decode(extra+fix(c.Toml), &conf)
	out := map[string]interface{}{}
	if err != nil {
		out["init_rejected"] = "toml: " + err.Error()
		out["done"] = true
		emit(out)
		os.RemoveAll(dir)
		os.Exit(0)
	}
	aggregator.InitMetrics()
	tc, err := conf.TableConfig()
	if err != nil {
		out["init_rejected"], out["done"] = err.Error(), true
		emit(out)
		os.RemoveAll(dir)
		os.Exit(0)
	}
	tab := table.New(tc)
	if err := cfg.InitTable(tab, conf, meta); err != nil {
		out["init_rejected"], out["done"] = err.Error(), true
		emit(out)
		os.RemoveAll(dir)
		os.Exit(0)
	}
	adminAddr, plainAddr, pickleAddr := freePort(), freePort(), freePort()
	go telnet.Start(adminAddr, tab)
	pl := input.NewListener(plainAddr, 2*time.Second, input.NewPlain(tab))
	pk := input.NewListener(pickleAddr, 2*time.Second, input.NewPickle(tab))
	if err := pl.Start(); err != nil {
		out["error"] = err.Error()
	}
	if err := pk.Start(); err != nil {
		out["error"] = err.Error()
	}
	dial := func(addr string) net.Conn {
		for i := 0; i < 100; i++ {
			cn, err := net.Dial("tcp", addr)
			if err == nil {
				return cn
			}
			time.Sleep(5 * time.Millisecond)
		}
		return nil
	}
	responses := []string{}
	if len(c.Cmds) > 0 {
		cn := dial(adminAddr)
		if cn != nil {
			buf := make([]byte, 65536)
			// the relay writes this line before it reads each command: it ends the reply to the previous one
			const prompt = "inspecting status is fine, but making changes on-the-fly is an experimental feature\n"
			readReply := func(d time.Duration) (string, bool) {
				var acc []byte
				deadline := time.Now().Add(d)
				for {
					if i := strings.Index(string(acc), prompt); i >= 0 {
						return string(acc[:i]), true
					}
					cn.SetReadDeadline(deadline)
					n, err := cn.Read(buf)
					acc = append(acc, buf[:n]...)
					if err != nil {
						return strings.Replace(string(acc), prompt, "", -1), false
					}
				}
			}
			readReply(2000 * time.Millisecond) // the first prompt
			for _, cmd := range c.Cmds {
				cn.Write([]byte(fix(cmd)))
				r, _ := readReply(4000 * time.Millisecond)
				if len(r) > 300 {
					r = r[:300]
				}
				responses = append(responses, strings.TrimSpace(r))
			}
			cn.Close()
		}
	}
	out["responses"] = responses
	delres := []string{}
	for _, d := range c.Dels {
		func() {
			// the http server recovers a panicking handler; what matters is the state it leaves behind
			defer func() {
				if r := recover(); r != nil {
					delres = append(delres, fmt.Sprintf("handler panic: %v", r))
				}
			}()
			if err := tab.DelDestination(d.Key, d.Index); err != nil {
				delres = append(delres, err.Error())
			} else {
				delres = append(delres, "ok")
			}
		}()
	}
	out["dels"] = delres
	if len(c.Lines) > 0 {
		if cn := dial(plainAddr); cn != nil {
			for _, l := range c.Lines {
				// "@NOW+k@" / "@NOW-k@": a timestamp relative to the moment the line is sent (aggregation buckets that are due / not yet due)
				if i := strings.Index(l, "@NOW"); i >= 0 {
					if j := strings.Index(l[i+1:], "@"); j >= 0 {
						off, _ := strconv.ParseInt(l[i+4:i+1+j], 10, 64)
						l = l[:i] + strconv.FormatInt(time.Now().Unix()+off, 10) + l[i+2+j:]
					}
				}
				cn.Write([]byte(l + "\n"))
			}
			cn.Close()
		}
	}
	for _, in := range c.Inputs {
		b := unhx(in.B)
		switch in.Kind {
		case "plain_tcp", "pickle_tcp":
			addr := plainAddr
			if in.Kind == "pickle_tcp" {
				addr = pickleAddr
			}
			if cn := dial(addr); cn != nil {
				cn.Write(b)
				cn.Close()
			}
		case "plain_udp", "pickle_udp":
			addr := plainAddr
			if in.Kind == "pickle_udp" {
				addr = pickleAddr
			}
			if cn, err := net.Dial("udp", addr); err == nil {
				cn.Write(b)
				cn.Close()
			}
		}
	}
	time.Sleep(time.Duration(c.WaitMs) * time.Millisecond)
	out["table"] = len(tab.Print())
	out["done"] = true
	emit(out)
	os.RemoveAll(dir)
	os.Exit(0)
}

func init() {
	runners["C14"] = runC14
	childModes["C14child"] = c14Child
}
