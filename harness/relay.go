package main

// C06 / C07: a real carbon route with real destinations against loopback endpoints whose behaviour
// the case scripts (absent, healthy, slow reader, black hole, closing and coming back).

import (
	"bufio"
	"encoding/json"
	"fmt"
	"io/ioutil"
	"net"
	"os"
	"sync"
	"sync/atomic"
	"syscall"
	"time"

	dest "github.com/grafana/carbon-relay-ng/destination"
	"github.com/grafana/carbon-relay-ng/matcher"
	"github.com/grafana/carbon-relay-ng/route"
)

// endpoint: a loopback listener on a fixed port with switchable behaviour
type endpoint struct {
	mu     sync.Mutex
	addr   string
	ln     net.Listener
	conns  []net.Conn
	mode   string // read | blackhole | slow
	lines  int64  // complete lines received (all incarnations)
	seen   map[string]int
	keep   bool // remember the lines themselves
	closed bool
}

func newEndpoint(mode string, keep bool) (*endpoint, error) {
	ln, err := net.Listen("tcp", "127.0.0.1:0")
	if err != nil {
		return nil, err
	}
	e := &endpoint{addr: ln.Addr().String(), mode: mode, seen: map[string]int{}, keep: keep, closed: true}
	ln.Close()
	return e, nil
}

func (e *endpoint) up() error {
	var ln net.Listener
	var err error
	for i := 0; i < 50; i++ {
		ln, err = net.Listen("tcp", e.addr)
		if err == nil {
			break
		}
		time.Sleep(10 * time.Millisecond)
	}
	if err != nil {
		return err
	}
	e.mu.Lock()
	e.ln, e.closed = ln, false
	mode := e.mode
	e.mu.Unlock()
	go func() {
		for {
			c, err := ln.Accept()
			if err != nil {
				return
			}
			e.mu.Lock()
			e.conns = append(e.conns, c)
			e.mu.Unlock()
			if tc, ok := c.(*net.TCPConn); ok && mode != "read" {
				// (a 4 KB window makes a reading peer crawl at ~30 KB/s — zero-window probes, delayed ACKs —, so that a phase does
				// not come to rest within its deadline; the slow reader is slow by its own pauses)
				if mode == "slow" {
					tc.SetReadBuffer(32768)
				} else {
					tc.SetReadBuffer(4096)
				}
			}
			if mode == "blackhole" {
				continue
			}
			go func(c net.Conn) {
				r := bufio.NewReaderSize(c, 65536)
				for {
					l, err := r.ReadBytes('\n')
					if err != nil {
						return
					}
					atomic.AddInt64(&e.lines, 1)
					if e.keep {
						e.mu.Lock()
						e.seen[string(l[:len(l)-1])]++
						e.mu.Unlock()
					}
					if mode == "slow" && atomic.LoadInt64(&e.lines)%20 == 0 {
						time.Sleep(time.Millisecond)
					}
				}
			}(c)
		}
	}()
	return nil
}

func (e *endpoint) down() {
	e.mu.Lock()
	defer e.mu.Unlock()
	if e.ln != nil {
		e.ln.Close()
	}
	for _, c := range e.conns {
		if tc, ok := c.(*net.TCPConn); ok {
			tc.SetLinger(0)
		}
		c.Close()
	}
	e.conns, e.closed = nil, true
}

func (e *endpoint) received() int64 { return atomic.LoadInt64(&e.lines) }

type relayCase struct {
	Scenario string `json:"scenario"` // healthy | slow_reader | absent | blackhole | close_midstream | close_under_traffic | two_dests
	Route    string `json:"route"`    // sendAllMatch | sendFirstMatch | consistentHashing
	ConnBuf  int    `json:"connbuf"`
	IOBuf    int    `json:"iobuf"`
	N        int    `json:"n"`         // lines per phase
	Size     int    `json:"size"`      // bytes per line (without newline)
	Pace     int    `json:"pace"`      // sleep 1ms every Pace lines (0 = never)
	ReconnMs int    `json:"reconn_ms"` // reconnect period (0 = 20 ms)
}

type relayPhase struct {
	Kind   string `json:"kind"` // up | down | transition
	Handed int64  `json:"handed"`
	Recv   int64  `json:"recv"`
	Slow   int64  `json:"slow"`
	NoConn int64  `json:"noconn"`
}

type relayDest struct {
	Spool     bool   `json:"spool"`
	Log       string `json:"log"` // hex of the relay() event marks
	Slow      int64  `json:"slow"`
	NoConn    int64  `json:"noconn"`
	SlowSpool int64  `json:"slowspool"`
}

func mkLine(i, size int) []byte {
	s := fmt.Sprintf("verif.line.%09d 1 1500000000", i)
	b := []byte(s)
	for len(b) < size {
		b = append(b, 'x')
	}
	return b
}

func runC06(raw json.RawMessage) (interface{}, error) {
	var c relayCase
	if err := json.Unmarshal(raw, &c); err != nil {
		return nil, err
	}
	mode := map[string]string{"healthy": "read", "slow_reader": "slow", "absent": "read", "absent_then_up": "read", "blackhole": "blackhole",
		"close_midstream": "read", "close_then_traffic": "read", "close_under_traffic": "read", "repoint_blackholed": "blackhole", "repoint_hung": "read", "two_dests": "blackhole", "spool_backlog_blackhole": "blackhole"}[c.Scenario]
	ep, err := newEndpoint(mode, false)
	if err != nil {
		return nil, err
	}
	defer ep.down()
	absent := c.Scenario == "absent" || c.Scenario == "absent_then_up" || c.Scenario == "spool_backlog_blackhole"
	spool := c.Scenario == "spool_backlog_blackhole"
	spoolDir := "/nonexistent-spool"
	if spool {
		spoolDir, err = ioutil.TempDir("", "c06spool")
		if err != nil {
			return nil, err
		}
		defer os.RemoveAll(spoolDir)
	}
	if !absent {
		if err := ep.up(); err != nil {
			return nil, err
		}
	}
	m, _ := matcher.New("", "", "", "", "", "")
	rn := fresh("c06r")
	mk := func(addr string) (*dest.Destination, error) {
		reconn := 20 * time.Millisecond
		if c.ReconnMs > 0 {
			reconn = time.Duration(c.ReconnMs) * time.Millisecond
		}
		return dest.New(rn, m, addr, spoolDir, spool, false, 5*time.Millisecond, reconn, c.ConnBuf, c.IOBuf,
			10, 200*1024*1024, 1000, time.Hour, 10*time.Microsecond, 10*time.Microsecond)
	}
	d, err := mk(ep.addr)
	if err != nil {
		return nil, err
	}
	dests := []*dest.Destination{d}
	var ep2 *endpoint
	var d2 *dest.Destination
	if c.Scenario == "two_dests" {
		ep2, err = newEndpoint("read", false)
		if err != nil {
			return nil, err
		}
		defer ep2.down()
		ep2.up()
		d2, err = mk(ep2.addr)
		if err != nil {
			return nil, err
		}
		dests = append(dests, d2)
	}
	var r route.Route
	switch c.Route {
	case "sendFirstMatch":
		r, err = route.NewSendFirstMatch(rn, m, dests[:1])
		if err == nil && d2 != nil {
			// a second route for the sibling: sendFirstMatch would stop at the first destination
			_, err = route.NewSendAllMatch(rn+"b", m, dests[1:])
		}
	case "consistentHashing":
		r, err = route.NewConsistentHashing(rn, m, dests[:1])
		if err == nil && d2 != nil {
			_, err = route.NewSendAllMatch(rn+"b", m, dests[1:])
		}
	default:
		r, err = route.NewSendAllMatch(rn, m, dests)
	}
	if err != nil {
		return nil, err
	}
	waitOnline := func(x *dest.Destination) bool {
		return waitFor(3*time.Second+time.Duration(c.ReconnMs)*time.Millisecond, func() bool { return x.Snapshot().Online })
	}
	if !absent {
		if !waitOnline(d) {
			return nil, fmt.Errorf("destination did not come online")
		}
	} else {
		time.Sleep(30 * time.Millisecond)
	}
	if d2 != nil && !waitOnline(d2) {
		return nil, fmt.Errorf("second destination did not come online")
	}
	var maxDispatchNs int64
	var oldKeys []string
	seq := 0
	stalled := false
	// the hand-off runs in its own goroutine so that a call that never returns is reported (as a very slow call) instead of hanging the harness
	send := func(n int) {
		if stalled {
			return
		}
		var cur int64
		done := make(chan struct{})
		first := seq
		seq += n
		go func() {
			for i := 0; i < n; i++ {
				l := mkLine(first+i, c.Size)
				t0 := time.Now()
				atomic.StoreInt64(&cur, t0.UnixNano())
				r.Dispatch(l)
				if d2 != nil && c.Route != "" && c.Route != "sendAllMatch" {
					d2.In <- l
				}
				atomic.StoreInt64(&cur, 0)
				if dt := int64(time.Since(t0)); dt > atomic.LoadInt64(&maxDispatchNs) {
					atomic.StoreInt64(&maxDispatchNs, dt)
				}
				if c.Pace > 0 && i%c.Pace == c.Pace-1 {
					time.Sleep(time.Millisecond)
				}
			}
			close(done)
		}()
		for {
			select {
			case <-done:
				return
			case <-time.After(50 * time.Millisecond):
				if t := atomic.LoadInt64(&cur); t != 0 && time.Now().UnixNano()-t > int64(1500*time.Millisecond) {
					stalled = true
					atomic.StoreInt64(&maxDispatchNs, time.Now().UnixNano()-t)
					return
				}
			}
		}
	}
	type snap struct{ recv, slow, noconn int64 }
	take := func(x *dest.Destination, e *endpoint) snap {
		return snap{e.received(), destDropSlowConn(x.Key), destDropNoConn(x.Key)}
	}
	phases := []relayPhase{}
	phase := func(kind string, n int, x *dest.Destination, e *endpoint, settle func(s0 snap) bool) {
		s0 := take(x, e)
		send(n)
		waitFor(6*time.Second, func() bool { return settle(s0) })
		time.Sleep(15 * time.Millisecond)
		s1 := take(x, e)
		phases = append(phases, relayPhase{kind, int64(n), s1.recv - s0.recv, s1.slow - s0.slow, s1.noconn - s0.noconn})
	}
	upSettled := func(x *dest.Destination, e *endpoint, n int) func(snap) bool {
		return func(s0 snap) bool {
			s := take(x, e)
			return (s.recv-s0.recv)+(s.slow-s0.slow)+(s.noconn-s0.noconn) >= int64(n)
		}
	}
	offline := func() bool {
		return waitFor(3*time.Second, func() bool { return !d.Snapshot().Online })
	}
	switch c.Scenario {
	case "healthy", "slow_reader":
		phase("up", c.N, d, ep, upSettled(d, ep, c.N))
		phase("up", c.N/2+1, d, ep, upSettled(d, ep, c.N/2+1))
	case "absent":
		phase("down", c.N, d, ep, upSettled(d, ep, c.N))
	case "absent_then_up":
		phase("down", c.N, d, ep, upSettled(d, ep, c.N))
		time.Sleep(50 * time.Millisecond) // at least two failed reconnect attempts
		if err := ep.up(); err != nil {
			return nil, err
		}
		if !waitOnline(d) {
			return nil, fmt.Errorf("destination did not connect once the endpoint came up")
		}
		phase("up", c.N, d, ep, upSettled(d, ep, c.N))
	case "blackhole":
		phase("transition", c.N, d, ep, func(snap) bool { return true })
	case "spool_backlog_blackhole":
		// an outage fills the spool; then the endpoint comes back but never reads: the replay of the backlog fills every buffer on the way,
		// and live traffic must still be taken (dropped and counted) without waiting
		// (one phase for the whole scenario: a backlog line dropped during the replay is counted as slow_conn too)
		s0 := take(d, ep)
		send(c.N)
		time.Sleep(50 * time.Millisecond)
		if err := ep.up(); err != nil {
			return nil, err
		}
		if !waitOnline(d) {
			return nil, fmt.Errorf("destination did not connect once the endpoint came up")
		}
		time.Sleep(2500 * time.Millisecond) // the unspool gate opens after two quiet reconnect periods; then the pipe fills
		send(300)
		time.Sleep(15 * time.Millisecond)
		s1 := take(d, ep)
		phases = append(phases, relayPhase{"transition", int64(c.N + 300), s1.recv - s0.recv, s1.slow - s0.slow, s1.noconn - s0.noconn})
	case "two_dests":
		// the sibling of a black-holed destination: everything handed to the route reaches it (or is counted as slow there)
		phase("up", c.N, d2, ep2, upSettled(d2, ep2, c.N))
	case "close_midstream":
		phase("up", c.N, d, ep, upSettled(d, ep, c.N))
		ep.down()
		if !offline() {
			return nil, fmt.Errorf("destination did not notice that the endpoint closed")
		}
		phase("down", c.N, d, ep, upSettled(d, ep, c.N))
		time.Sleep(50 * time.Millisecond) // at least two failed reconnect attempts
		if err := ep.up(); err != nil {
			return nil, err
		}
		if !waitOnline(d) {
			return nil, fmt.Errorf("destination did not reconnect")
		}
		phase("up", c.N, d, ep, upSettled(d, ep, c.N))
	case "repoint_blackholed":
		// the endpoint accepts and never reads until the writer is stuck in the socket; then the admin re-points the destination
		// to a healthy endpoint (modDest addr=...): the update returns, dispatch stays bounded, traffic reaches the new endpoint
		ep3, err := newEndpoint("read", false)
		if err != nil {
			return nil, err
		}
		defer ep3.down()
		if err := ep3.up(); err != nil {
			return nil, err
		}
		phase("transition", c.N, d, ep, func(snap) bool { return true })
		time.Sleep(300 * time.Millisecond)
		oldKeys = append(oldKeys, d.Key) // the destination's key (and with it its counters) follows its address
		upd := make(chan error, 1)
		go func() { upd <- r.UpdateDestination(0, map[string]string{"addr": ep3.addr}) }()
		select {
		case err := <-upd:
			if err != nil {
				return nil, err
			}
		case <-time.After(3 * time.Second):
			stalled = true
			atomic.StoreInt64(&maxDispatchNs, int64(3*time.Second))
		}
		if !stalled {
			waitFor(3*time.Second, func() bool { return ep3.received() > 0 || d.Snapshot().Online })
			time.Sleep(50 * time.Millisecond)
			phase("up", 1000, d, ep3, upSettled(d, ep3, 1000))
		}
	case "repoint_hung":
		// the admin re-points the destination to an endpoint whose TCP handshake hangs (a wedged daemon: accept queue full, SYNs dropped).
		// Only the update call may wait for the connect; hand-off goes on, and until the connect ends the lines keep reaching the old endpoint
		phase("up", c.N, d, ep, upSettled(d, ep, c.N))
		if hung, ok := hungEndpoint(); ok {
			go r.UpdateDestination(0, map[string]string{"addr": hung})
			time.Sleep(200 * time.Millisecond)
		}
		phase("up", c.N, d, ep, upSettled(d, ep, c.N))
	case "close_then_traffic":
		// the endpoint closes while the relay is idle and the reconnect period is long; after the conn has seen the EOF, the very
		// next pass through the relay loop must retire it (the line that causes that pass still goes to the dead conn: the
		// transition, outside the steady-state clause), and every line handed off from then on is counted conn_down_no_spool
		phase("up", c.N, d, ep, upSettled(d, ep, c.N))
		ep.down()
		time.Sleep(150 * time.Millisecond)
		send(1) // the line that makes the relay loop notice
		time.Sleep(30 * time.Millisecond)
		phase("down", c.N, d, ep, upSettled(d, ep, c.N))
		if err := ep.up(); err != nil {
			return nil, err
		}
		if !waitOnline(d) {
			return nil, fmt.Errorf("destination did not reconnect")
		}
		phase("up", c.N, d, ep, upSettled(d, ep, c.N))
	case "close_under_traffic":
		done := make(chan struct{})
		go func() {
			time.Sleep(3 * time.Millisecond)
			ep.down()
			time.Sleep(60 * time.Millisecond)
			ep.up()
			close(done)
		}()
		phase("transition", c.N, d, ep, func(snap) bool { return true })
		<-done
		// afterwards: back to a steady state
		if !waitOnline(d) {
			return nil, fmt.Errorf("destination did not reconnect")
		}
		time.Sleep(30 * time.Millisecond)
		phase("up", c.N/4+1, d, ep, upSettled(d, ep, c.N/4+1))
	}
	out := []relayDest{}
	for i, x := range dests {
		rd := relayDest{spool, hx(x.VerifLog(true)), destDropSlowConn(x.Key), destDropNoConn(x.Key), destDropSlowSpool(x.Key)}
		if i == 0 {
			for _, k := range oldKeys {
				if k != x.Key {
					rd.Slow += destDropSlowConn(k)
					rd.NoConn += destDropNoConn(k)
					rd.SlowSpool += destDropSlowSpool(k)
				}
			}
		}
		out = append(out, rd)
	}
	go r.Shutdown() // may wait for ever on a black-holed connection
	return map[string]interface{}{"phases": phases, "dests": out, "max_dispatch_us": time.Duration(atomic.LoadInt64(&maxDispatchNs)).Microseconds(), "stalled": stalled}, nil
}

func init() {
	runners["C06"] = runC06
	_ = ioutil.Discard
	_ = os.Stderr
}

// hungEndpoint returns the address of a loopback listener that never accepts and whose accept queue is full, so that further
// connection attempts hang in the handshake (linux drops the SYNs); ok is false where such an endpoint cannot be built.
// The listener and the filler connections stay open until the harness process exits.
var hungKeep []net.Conn

func hungEndpoint() (string, bool) {
	fd, err := syscall.Socket(syscall.AF_INET, syscall.SOCK_STREAM, 0)
	if err != nil {
		return "", false
	}
	if err := syscall.Bind(fd, &syscall.SockaddrInet4{Port: 0, Addr: [4]byte{127, 0, 0, 1}}); err != nil {
		return "", false
	}
	if err := syscall.Listen(fd, 0); err != nil {
		return "", false
	}
	sa, err := syscall.Getsockname(fd)
	if err != nil {
		return "", false
	}
	addr := fmt.Sprintf("127.0.0.1:%d", sa.(*syscall.SockaddrInet4).Port)
	for i := 0; i < 32; i++ {
		cn, err := net.DialTimeout("tcp", addr, 400*time.Millisecond)
		if err != nil {
			if ne, isNet := err.(net.Error); isNet && ne.Timeout() {
				return addr, true
			}
			return "", false
		}
		hungKeep = append(hungKeep, cn)
	}
	return "", false
}
