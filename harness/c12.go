package main

import (
	"bufio"
	"bytes"
	"encoding/json"
	"errors"
	"io"
	"net"
	"sync"
	"time"

	"github.com/grafana/carbon-relay-ng/cfg"
	"github.com/grafana/carbon-relay-ng/input"
	"github.com/streadway/amqp"
)

// captureDispatcher records every Dispatch argument (copied at call time) and keeps the slice it was
// handed: the handlers reuse their buffers, so what matters is the content at call time.
type captureDispatcher struct {
	mu      sync.Mutex
	lines   [][]byte
	invalid int
	gate    chan struct{} // when set: the first Dispatch call waits here (back-pressure from the pipeline)
	stalled chan struct{} // closed when the first call has started waiting
	once    sync.Once
}

func (c *captureDispatcher) Dispatch(buf []byte) {
	if c.gate != nil {
		c.once.Do(func() {
			close(c.stalled)
			select {
			case <-c.gate:
			case <-time.After(5 * time.Second):
			}
		})
	}
	c.mu.Lock()
	c.lines = append(c.lines, append([]byte(nil), buf...))
	c.mu.Unlock()
}
func (c *captureDispatcher) IncNumInvalid() { c.mu.Lock(); c.invalid++; c.mu.Unlock() }
func (c *captureDispatcher) hexLines() []string {
	c.mu.Lock()
	defer c.mu.Unlock()
	out := make([]string, len(c.lines))
	for i, l := range c.lines {
		out[i] = hx(l)
	}
	return out
}

type readStep struct {
	T string `json:"t"` // data | dataeof | dataerr | eof | err
	B string `json:"b,omitempty"`
}

// scriptReader returns exactly what the script says, one step per Read call (split when the caller's
// buffer is smaller than the step).
type scriptReader struct {
	steps []readStep
	cur   []byte
	curT  string
	have  bool
}

var errScript = errors.New("scripted read error (i/o timeout)")

func (r *scriptReader) Read(p []byte) (int, error) {
	if !r.have {
		if len(r.steps) == 0 {
			return 0, io.EOF
		}
		st := r.steps[0]
		r.steps = r.steps[1:]
		r.cur, r.curT, r.have = unhx(st.B), st.T, true
	}
	n := copy(p, r.cur)
	r.cur = r.cur[n:]
	if len(r.cur) > 0 {
		return n, nil
	}
	r.have = false
	switch r.curT {
	case "dataeof", "eof":
		return n, io.EOF
	case "dataerr", "err":
		return n, errScript
	}
	return n, nil
}

type c12Case struct {
	Kind string `json:"kind"`           // plain | udp | udp_live | udp_burst | tcp_live | amqp
	Host string `json:"host,omitempty"` // udp_live: 127.0.0.1 or [::1]
	// tcp_live: a real listener with a read timeout; the segments are written after the given pauses
	TimeoutMs int        `json:"timeout_ms,omitempty"`
	Segs      []tcpSeg   `json:"segs,omitempty"`
	Script    []readStep `json:"script,omitempty"`
	Body      string     `json:"body,omitempty"`
	Bodies    []string   `json:"bodies,omitempty"`   // udp_burst: the datagrams, in sending order
	StallMs   int        `json:"stall_ms,omitempty"` // udp_burst: how long the first Dispatch keeps waiting after the last datagram was sent
}

type tcpSeg struct {
	DelayMs int    `json:"delay_ms"`
	B       string `json:"b"`
}

func runC12(raw json.RawMessage) (interface{}, error) {
	var c c12Case
	if err := json.Unmarshal(raw, &c); err != nil {
		return nil, err
	}
	d := &captureDispatcher{}
	status := "ok"
	switch c.Kind {
	case "plain":
		err := input.NewPlain(d).Handle(&scriptReader{steps: c.Script})
		switch {
		case err == nil:
		case err == bufio.ErrTooLong:
			status = "toolong"
		case err == io.ErrNoProgress:
			status = "noprogress"
		default:
			status = "err"
		}
	case "udp":
		l := input.NewListener("127.0.0.1:0", time.Second, input.NewPlain(d))
		l.HandleData(l, unhx(c.Body), nil)
	case "tcp_live":
		ln, err := net.Listen("tcp", "127.0.0.1:0")
		if err != nil {
			return nil, err
		}
		addr := ln.Addr().String()
		ln.Close()
		l := input.NewListener(addr, time.Duration(c.TimeoutMs)*time.Millisecond, input.NewPlain(d))
		if err := l.Start(); err != nil {
			return nil, err
		}
		cn, err := net.Dial("tcp", addr)
		if err != nil {
			l.Stop()
			return nil, err
		}
		for _, sg := range c.Segs {
			time.Sleep(time.Duration(sg.DelayMs) * time.Millisecond)
			cn.Write(unhx(sg.B))
		}
		cn.Close()
		last, since := -1, time.Now()
		for deadline := time.Now().Add(3 * time.Second); time.Now().Before(deadline); time.Sleep(10 * time.Millisecond) {
			d.mu.Lock()
			n := len(d.lines)
			d.mu.Unlock()
			if n != last {
				last, since = n, time.Now()
			} else if time.Since(since) > 200*time.Millisecond {
				break
			}
		}
		l.Stop()
	case "udp_live":
		// a real listener and a real socket: the datagram goes through consumeUdp's receive buffer
		ln, err := net.Listen("tcp", c.Host+":0")
		if err != nil {
			status = "skip" // no such loopback address in this sandbox
			break
		}
		addr := ln.Addr().String()
		ln.Close()
		l := input.NewListener(addr, time.Second, input.NewPlain(d))
		if err := l.Start(); err != nil {
			status = "skip"
			break
		}
		cn, err := net.Dial("udp", addr)
		if err != nil {
			status = "skip"
		} else {
			if _, err := cn.Write(unhx(c.Body)); err != nil {
				status = "skip" // the datagram is larger than this address family carries
			}
			cn.Close()
		}
		if status == "ok" {
			last, since := -1, time.Now()
			for deadline := time.Now().Add(3 * time.Second); time.Now().Before(deadline); time.Sleep(10 * time.Millisecond) {
				d.mu.Lock()
				n := len(d.lines)
				d.mu.Unlock()
				if n != last {
					last, since = n, time.Now()
				} else if n > 0 && time.Since(since) > 150*time.Millisecond {
					break
				}
			}
		}
		l.Stop()
	case "udp_burst":
		// several datagrams through a real socket while the pipeline stalls inside the first one: the later datagrams
		// arrive (and wait in the socket) while the first is still being scanned
		ln, err := net.Listen("tcp", "127.0.0.1:0")
		if err != nil {
			return nil, err
		}
		addr := ln.Addr().String()
		ln.Close()
		d.gate, d.stalled = make(chan struct{}), make(chan struct{})
		l := input.NewListener(addr, time.Second, input.NewPlain(d))
		if err := l.Start(); err != nil {
			return nil, err
		}
		cn, err := net.Dial("udp", addr)
		if err != nil {
			l.Stop()
			return nil, err
		}
		want := 0
		for i, b := range c.Bodies {
			body := unhx(b)
			want += bytes.Count(body, []byte("\n"))
			cn.Write(body)
			if i == 0 {
				select {
				case <-d.stalled:
				case <-time.After(2 * time.Second):
				}
			}
		}
		time.Sleep(time.Duration(c.StallMs) * time.Millisecond)
		close(d.gate)
		cn.Close()
		last, since := -1, time.Now()
		for deadline := time.Now().Add(4 * time.Second); time.Now().Before(deadline); time.Sleep(10 * time.Millisecond) {
			d.mu.Lock()
			n := len(d.lines)
			d.mu.Unlock()
			if n != last {
				last, since = n, time.Now()
			} else if (n >= want && time.Since(since) > 150*time.Millisecond) || time.Since(since) > time.Second {
				break
			}
		}
		l.Stop()
	case "amqp":
		del := make(chan amqp.Delivery)
		a := input.NewAMQP(cfg.NewConfig(), d, input.VerifMockConnector(del))
		a.Start()
		del <- amqp.Delivery{Body: unhx(c.Body)}
		// the body is processed by the consumer goroutine after the hand-over: a second (empty) delivery is
		// only accepted once the first was processed completely
		del <- amqp.Delivery{Body: []byte{}}
		a.Stop()
	}
	return map[string]interface{}{"lines": d.hexLines(), "status": status}, nil
}

func init() {
	runners["C12"] = runC12
	_ = bytes.NewReader
}
