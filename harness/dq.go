package main

import (
	"encoding/json"
	"fmt"
	"io/ioutil"
	"os"
	"path/filepath"
	"regexp"
	"sort"
	"strconv"
	"sync"
	"time"

	"github.com/grafana/carbon-relay-ng/nsqd"
)

type dqOp struct {
	Op string `json:"op"` // put | get | reopen
	M  string `json:"m,omitempty"`
}

type dqCase struct {
	Max       int64  `json:"max"`
	SyncEvery int64  `json:"syncevery"`
	Ops       []dqOp `json:"ops"`
	Crash     bool   `json:"crash"` // record every crash point and recover from each
	Continue  []dqOp `json:"continue,omitempty"` // ops to run after recovering from the last crash point
}

type fsSnap struct {
	Segs map[string]string `json:"segs"` // file number -> hex content
	Bad  map[string]string `json:"bad"`
	Meta *string           `json:"meta"`
	Tmp  *string           `json:"tmp"`
}

type dqObs struct {
	Out    []string  `json:"out"`   // per op: "ok" | "get:<hex>" | "none" | "reopen"
	Depth  []int64   `json:"depth"` // Depth() at rest after each op
	Final  fsSnap    `json:"final"`
	Labels []string  `json:"labels,omitempty"`
	Snaps  []fsSnap  `json:"snaps,omitempty"`  // distinct consecutive file-system states, in order
	Drains [][]string `json:"drains,omitempty"` // what a queue reopened on each snapshot delivers
	Cont   []string  `json:"cont,omitempty"`
}

var segRe = regexp.MustCompile(`^q\.diskqueue\.(\d+)\.dat(\.bad)?$`)

func snapDir(dir string) fsSnap {
	s := fsSnap{Segs: map[string]string{}, Bad: map[string]string{}}
	ents, _ := ioutil.ReadDir(dir)
	for _, e := range ents {
		b, err := ioutil.ReadFile(filepath.Join(dir, e.Name()))
		if err != nil {
			continue
		}
		h := hx(b)
		switch {
		case e.Name() == "q.diskqueue.meta.dat":
			s.Meta = &h
		case e.Name() == "q.diskqueue.meta.dat.tmp":
			s.Tmp = &h
		default:
			m := segRe.FindStringSubmatch(e.Name())
			if m != nil {
				n, _ := strconv.Atoi(m[1])
				if m[2] == "" {
					s.Segs[strconv.Itoa(n)] = h
				} else {
					s.Bad[strconv.Itoa(n)] = h
				}
			}
		}
	}
	return s
}

func snapEq(a, b fsSnap) bool {
	ja, _ := json.Marshal(a)
	jb, _ := json.Marshal(b)
	return string(ja) == string(jb)
}

func restoreDir(dir string, s fsSnap) {
	os.MkdirAll(dir, 0700)
	w := func(name, h string) { ioutil.WriteFile(filepath.Join(dir, name), unhx(h), 0600) }
	for n, h := range s.Segs {
		i, _ := strconv.Atoi(n)
		w(fmt.Sprintf("q.diskqueue.%06d.dat", i), h)
	}
	for n, h := range s.Bad {
		i, _ := strconv.Atoi(n)
		w(fmt.Sprintf("q.diskqueue.%06d.dat.bad", i), h)
	}
	if s.Meta != nil {
		w("q.diskqueue.meta.dat", *s.Meta)
	}
	if s.Tmp != nil {
		w("q.diskqueue.meta.dat.tmp", *s.Tmp)
	}
}

// get: a message is due when the queue says it has some; otherwise only wait briefly
func dqGet(q nsqd.BackendQueue) (string, bool) {
	wait := 60 * time.Millisecond
	if q.Depth() > 0 {
		wait = time.Second
	}
	select {
	case m := <-q.ReadChan():
		return hx(m), true
	case <-time.After(wait):
		return "", false
	}
}

func dqDrain(q nsqd.BackendQueue, limit int) []string {
	out := []string{}
	for len(out) < limit {
		m, ok := dqGet(q)
		if !ok {
			break
		}
		out = append(out, m)
	}
	return out
}

var dqMu sync.Mutex // the crash-point callback is process-global

func runDQ(raw json.RawMessage) (interface{}, error) {
	var c dqCase
	if err := json.Unmarshal(raw, &c); err != nil {
		return nil, err
	}
	dqMu.Lock()
	defer dqMu.Unlock()
	dir, err := ioutil.TempDir("", "verifdq")
	if err != nil {
		return nil, err
	}
	defer os.RemoveAll(dir)
	var o dqObs
	var snapAt []int // index of the label that produced each snapshot
	if c.Crash {
		last := snapDir(dir)
		o.Snaps = append(o.Snaps, last)
		snapAt = append(snapAt, -1)
		nsqd.VerifCrashPoint = func(p string) {
			s := snapDir(dir)
			o.Labels = append(o.Labels, p)
			if !snapEq(s, last) {
				o.Snaps = append(o.Snaps, s)
				snapAt = append(snapAt, len(o.Labels)-1)
				last = s
			}
		}
		defer func() { nsqd.VerifCrashPoint = nil }()
	}
	q := nsqd.NewDiskQueue("q", dir, c.Max, c.SyncEvery, time.Hour)
	for _, op := range c.Ops {
		switch op.Op {
		case "put":
			if err := q.Put(unhx(op.M)); err != nil {
				o.Out = append(o.Out, "err:"+err.Error())
			} else {
				o.Out = append(o.Out, "ok")
			}
		case "get":
			if m, ok := dqGet(q); ok {
				o.Out = append(o.Out, "get:"+m)
			} else {
				o.Out = append(o.Out, "none")
			}
		case "reopen":
			q.Close()
			q = nsqd.NewDiskQueue("q", dir, c.Max, c.SyncEvery, time.Hour)
			o.Out = append(o.Out, "reopen")
		}
		// at rest: a Put returns after writeOne; after a delivery moveForward runs in the loop goroutine,
		// so wait for the depth to move before reading it
		if op.Op == "get" && len(o.Out) > 0 && len(o.Out[len(o.Out)-1]) > 4 && len(o.Depth) > 0 {
			prev := o.Depth[len(o.Depth)-1]
			waitFor(200*time.Millisecond, func() bool { return q.Depth() != prev })
		}
		o.Depth = append(o.Depth, q.Depth())
	}
	// Close is a barrier (it waits for the I/O loop to exit); its own two metadata labels come last and are
	// not part of the compared history when recording crash points (every restart is a crash)
	q.Close()
	nsqd.VerifCrashPoint = nil
	o.Final = snapDir(dir)
	if c.Crash {
		n := len(o.Labels) - 2
		if n < 0 {
			n = 0
		}
		keep := 0
		for i, at := range snapAt {
			if at < n {
				keep = i + 1
			}
		}
		o.Labels = o.Labels[:n]
		o.Snaps = o.Snaps[:keep]
	}
	snaps := o.Snaps
	if c.Crash {
		o.Drains = make([][]string, len(snaps))
		var wg sync.WaitGroup
		sem := make(chan struct{}, 8)
		for i := range snaps {
			wg.Add(1)
			go func(i int) {
				defer wg.Done()
				sem <- struct{}{}
				defer func() { <-sem }()
				d, _ := ioutil.TempDir("", "verifdqr")
				defer os.RemoveAll(d)
				restoreDir(d, snaps[i])
				rq := nsqd.NewDiskQueue("q", d, c.Max, c.SyncEvery, time.Hour)
				o.Drains[i] = dqDrain(rq, len(c.Ops)+5)
				if i == len(snaps)-1 && len(c.Continue) > 0 {
					for _, op := range c.Continue {
						switch op.Op {
						case "put":
							rq.Put(unhx(op.M))
							o.Cont = append(o.Cont, "ok")
						case "get":
							if m, ok := dqGet(rq); ok {
								o.Cont = append(o.Cont, "get:"+m)
							} else {
								o.Cont = append(o.Cont, "none")
							}
						}
					}
				}
				rq.Close()
			}(i)
		}
		wg.Wait()
	}
	return o, nil
}

func init() {
	runners["C09"] = runDQ
	runners["C08"] = runDQ
	_ = sort.Strings
}
