package main

import (
	"encoding/json"
	"fmt"
	"io/ioutil"
	"os"
	"os/exec"
	"path/filepath"
	"sort"
	"strconv"
	"strings"

	"github.com/BurntSushi/toml"
	"github.com/grafana/carbon-relay-ng/aggregator"
	"github.com/grafana/carbon-relay-ng/cfg"
	dest "github.com/grafana/carbon-relay-ng/destination"
	"github.com/grafana/carbon-relay-ng/imperatives"
	"github.com/grafana/carbon-relay-ng/matcher"
	"github.com/grafana/carbon-relay-ng/route"
	"github.com/grafana/carbon-relay-ng/table"
)

type c20Case struct {
	Kind  string   `json:"kind"` // table | expand
	Via   string   `json:"via"`  // cmd | toml
	Cmds  []string `json:"cmds,omitempty"`
	Toml  string   `json:"toml,omitempty"`
	Texts []string `json:"texts,omitempty"` // hex, for expand
	Env   map[string]string `json:"env,omitempty"`
}

func matcherKV(m matcher.Matcher) map[string]string {
	return map[string]string{"prefix": m.Prefix, "notPrefix": m.NotPrefix, "sub": m.Sub, "notSub": m.NotSub, "regex": m.Regex, "notRegex": m.NotRegex}
}

func b2s(b bool) string { return strconv.FormatBool(b) }

type entryView struct {
	Kind string            `json:"kind"`
	KV   map[string]string `json:"kv"`
}

func viewTable(tab *table.Table) []entryView {
	var out []entryView
	rws, aggs, bl, routes := tab.VerifConfigSlices()
	for _, m := range bl {
		out = append(out, entryView{"blacklist", matcherKV(*m)})
	}
	for _, r := range rws {
		out = append(out, entryView{"rewriter", map[string]string{"old": r.Old, "new": r.New, "not": r.Not, "max": strconv.Itoa(r.Max)}})
	}
	for _, a := range aggs {
		kv := matcherKV(a.Matcher)
		kv["function"], kv["format"], kv["cache"], kv["dropRaw"] = a.Fun, a.OutFmt, b2s(a.Cache), b2s(a.DropRaw)
		kv["interval"], kv["wait"] = strconv.Itoa(int(a.Interval)), strconv.Itoa(int(a.Wait))
		out = append(out, entryView{"aggregation", kv})
	}
	for _, r := range routes {
		snap := r.Snapshot()
		kv := matcherKV(snap.Matcher)
		kv["key"], kv["type"] = snap.Key, snap.Type
		if g, ok := r.(*route.GrafanaNet); ok {
			c := g.Cfg
			kv["type"] = "grafanaNet"
			kv["addr"], kv["apikey"], kv["schemasFile"], kv["aggregationFile"] = c.Addr, c.ApiKey, filepath.Base(c.SchemasFile), filepath.Base(c.AggregationFile)
			kv["bufSize"], kv["flushMaxNum"] = strconv.Itoa(c.BufSize), strconv.Itoa(c.FlushMaxNum)
			kv["flushMaxWait"], kv["timeout"] = strconv.FormatInt(c.FlushMaxWait.Milliseconds(), 10), strconv.FormatInt(c.Timeout.Milliseconds(), 10)
			kv["concurrency"], kv["orgId"] = strconv.Itoa(c.Concurrency), strconv.Itoa(c.OrgID)
			kv["sslverify"], kv["blocking"], kv["spool"] = b2s(c.SSLVerify), b2s(c.Blocking), b2s(c.Spool)
			kv["errBackoffMin"] = strconv.FormatInt(c.ErrBackoffMin.Milliseconds(), 10)
			kv["errBackoffFactor"] = strconv.FormatFloat(c.ErrBackoffFactor, 'g', -1, 64)
		}
		out = append(out, entryView{"route", kv})
		if vd, ok := r.(interface{ VerifDests() []*dest.Destination }); ok {
			for _, d := range vd.VerifDests() {
				dk := matcherKV(d.GetMatcher())
				addr := d.Addr
				if d.Instance != "" {
					addr += ":" + d.Instance
				}
				dk["addr"], dk["spool"], dk["pickle"], dk["route"] = addr, b2s(d.Spool), b2s(d.Pickle), snap.Key
				for k, v := range d.VerifSettings() {
					dk[k] = strconv.FormatInt(v, 10)
				}
				out = append(out, entryView{"destination", dk})
			}
		}
	}
	return out
}

func runC20(raw json.RawMessage) (interface{}, error) {
	aggInitOnce.Do(func() { aggregator.InitMetrics() })
	var c c20Case
	if err := json.Unmarshal(raw, &c); err != nil {
		return nil, err
	}
	if c.Kind == "expand" {
		return runExpand(&c)
	}
	dir, err := ioutil.TempDir("", "verifc20")
	if err != nil {
		return nil, err
	}
	defer os.RemoveAll(dir)
	ioutil.WriteFile(filepath.Join(dir, "storage-schemas.conf"), []byte("[default]\npattern = .*\nretentions = 10s:1d\n"), 0600)
	ioutil.WriteFile(filepath.Join(dir, "storage-aggregation.conf"), []byte("[default]\npattern = .*\nxFilesFactor = 0.5\naggregationMethod = average\n"), 0600)
	fix := func(s string) string { return strings.Replace(s, "@DIR@", dir, -1) }
	conf := cfg.NewConfig()
	conf.Bad_metrics_max_age = "24h"
	conf.Spool_dir = dir
	var meta toml.MetaData
	if c.Via == "toml" {
		meta, err = toml.Decode(fix(c.Toml)+"\nspool_dir = \""+dir+"\"\nbad_metrics_max_age = \"24h\"\n", &conf)
		if err != nil {
			return map[string]interface{}{"rejected": "toml: " + err.Error()}, nil
		}
	}
	tc, err := conf.TableConfig()
	if err != nil {
		return nil, err
	}
	tab := table.New(tc)
	defer func() {
		// shut the carbon routes down; grafanaNet routes are left alone here (their Shutdown is C17's subject)
		_, _, _, routes := tab.VerifConfigSlices()
		for _, r := range routes {
			if _, ok := r.(*route.GrafanaNet); !ok {
				r.Shutdown()
			}
		}
	}()
	if c.Via == "toml" {
		if err := cfg.InitTable(tab, conf, meta); err != nil {
			return map[string]interface{}{"rejected": err.Error(), "entries": viewTable(tab)}, nil
		}
	} else {
		for _, cmd := range c.Cmds {
			if err := imperatives.Apply(tab, fix(cmd)); err != nil {
				return map[string]interface{}{"rejected": err.Error(), "entries": viewTable(tab)}, nil
			}
		}
	}
	v := viewTable(tab)
	_, aggs, _, _ := tab.VerifConfigSlices()
	for _, a := range aggs {
		a.Shutdown()
	}
	return map[string]interface{}{"entries": v}, nil
}

func runExpand(c *c20Case) (interface{}, error) {
	repo := os.Getenv("VERIF_REPO")
	if repo == "" {
		repo = "/repo"
	}
	dir, err := ioutil.TempDir("", "verifexp")
	if err != nil {
		return nil, err
	}
	defer os.RemoveAll(dir)
	in, out := filepath.Join(dir, "in"), filepath.Join(dir, "out")
	ioutil.WriteFile(in, []byte(strings.Join(c.Texts, "\n")+"\n"), 0600)
	cmd := exec.Command("go", "test", "-tags", "verif", "-vet=off", "-count=1", "-run", "TestVerifExpand", "./cmd/carbon-relay-ng/")
	cmd.Dir = repo
	env := os.Environ()
	env = append(env, "GOFLAGS=-mod=mod", "GOPROXY=off", "GOSUMDB=off", "GOTOOLCHAIN=local", "VERIF_EXPAND_IN="+in, "VERIF_EXPAND_OUT="+out)
	keys := make([]string, 0, len(c.Env))
	for k := range c.Env {
		keys = append(keys, k)
	}
	sort.Strings(keys)
	for _, k := range keys {
		env = append(env, k+"="+c.Env[k])
	}
	cmd.Env = env
	if b, err := cmd.CombinedOutput(); err != nil {
		return nil, fmt.Errorf("go test failed: %v: %s", err, string(b))
	}
	data, err := ioutil.ReadFile(out)
	if err != nil {
		return nil, err
	}
	host, _ := os.Hostname()
	return map[string]interface{}{"out": strings.Split(strings.TrimSpace(string(data)), "\n"), "host": strings.SplitN(host, ".", 2)[0]}, nil
}

func init() { runners["C20"] = runC20 }
