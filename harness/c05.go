package main

import (
	"encoding/json"
	"errors"
	"fmt"
	"io"
	"net"
	"sync"
	"time"

	dest "github.com/grafana/carbon-relay-ng/destination"
	"github.com/grafana/carbon-relay-ng/matcher"
	"github.com/grafana/carbon-relay-ng/stats"
)

// ---- scripted io.Writer ---------------------------------------------------------------------
type wResp struct {
	N   *int `json:"n"` // nil = takes everything
	Err bool `json:"err"`
}

type scriptWriter struct {
	script []wResp
	out    []byte
}

var errWrite = errors.New("scripted write error")

func (w *scriptWriter) Write(p []byte) (int, error) {
	n, e := len(p), false
	if len(w.script) > 0 {
		r := w.script[0]
		w.script = w.script[1:]
		if r.N != nil && *r.N < n {
			n = *r.N
		}
		e = r.Err
	}
	w.out = append(w.out, p[:n]...)
	if e {
		return n, errWrite
	}
	return n, nil
}

type wOp struct {
	W *string `json:"w,omitempty"` // hex; nil = flush
}

type c05Case struct {
	Kind   string  `json:"kind"` // writer | live
	Cap    int     `json:"cap"`
	Script []wResp `json:"script"`
	Ops    []wOp   `json:"ops"`
	// live
	IOBuf   int      `json:"iobuf"`
	ConnBuf int      `json:"connbuf"`
	FlushMs int      `json:"flush_ms"`
	Lines   []string `json:"lines"` // hex
	PauseEvery int   `json:"pause_every"` // sleep 1ms after this many lines (0 = never): lets the conn catch up
	SlowReadUs int   `json:"slow_read_us"` // endpoint sleeps this long between reads
	Pickle     bool  `json:"pickle"`       // pickle-mode destination: the stream is length-prefixed pickles, one per line
}

func runWriter(c *c05Case) (interface{}, error) {
	sw := &scriptWriter{script: c.Script}
	w := dest.NewWriter(sw, c.Cap, fresh("c05w"))
	type ob struct {
		N        int  `json:"n"`
		Err      bool `json:"err"`
		Buffered int  `json:"buffered"`
	}
	var obs []ob
	for _, op := range c.Ops {
		if op.W != nil {
			n, err := w.Write(unhx(*op.W))
			obs = append(obs, ob{n, err != nil, w.Buffered()})
		} else {
			err := w.Flush()
			obs = append(obs, ob{0, err != nil, w.Buffered()})
		}
	}
	return map[string]interface{}{"ops": obs, "emitted": hx(sw.out)}, nil
}

// sink: a loopback endpoint that records everything it receives
type sink struct {
	ln   *net.TCPListener
	mu   sync.Mutex
	data []byte
	slow time.Duration
	conns []net.Conn
}

func newSink(slow time.Duration) (*sink, error) {
	a, _ := net.ResolveTCPAddr("tcp", "127.0.0.1:0")
	ln, err := net.ListenTCP("tcp", a)
	if err != nil {
		return nil, err
	}
	s := &sink{ln: ln, slow: slow}
	go func() {
		for {
			c, err := ln.Accept()
			if err != nil {
				return
			}
			s.mu.Lock()
			s.conns = append(s.conns, c)
			s.mu.Unlock()
			go func(c net.Conn) {
				buf := make([]byte, 4096)
				for {
					n, err := c.Read(buf)
					s.mu.Lock()
					s.data = append(s.data, buf[:n]...)
					s.mu.Unlock()
					if err != nil {
						return
					}
					if s.slow > 0 {
						time.Sleep(s.slow)
					}
				}
			}(c)
		}
	}()
	return s, nil
}

func (s *sink) bytes() []byte {
	s.mu.Lock()
	defer s.mu.Unlock()
	return append([]byte(nil), s.data...)
}

func (s *sink) close() {
	s.ln.Close()
	s.mu.Lock()
	for _, c := range s.conns {
		c.Close()
	}
	s.mu.Unlock()
}

func countNL(b []byte) int {
	n := 0
	for _, c := range b {
		if c == '\n' {
			n++
		}
	}
	return n
}

// countFrames counts the complete 4-byte-length-prefixed frames at the start of b
func countFrames(b []byte) int {
	n := 0
	for len(b) >= 4 {
		l := int(b[0])<<24 | int(b[1])<<16 | int(b[2])<<8 | int(b[3])
		if l == 0 || len(b) < 4+l {
			break
		}
		b = b[4+l:]
		n++
	}
	return n
}

func runLive(c *c05Case) (interface{}, error) {
	s, err := newSink(time.Duration(c.SlowReadUs) * time.Microsecond)
	if err != nil {
		return nil, err
	}
	defer s.close()
	m, _ := matcher.New("", "", "", "", "", "")
	rn := fresh("c05r")
	d, err := dest.New(rn, m, s.ln.Addr().String(), "/nonexistent-spool", false, c.Pickle,
		time.Duration(c.FlushMs)*time.Millisecond, time.Hour, c.ConnBuf, c.IOBuf, 10, 1000, 10, time.Hour, time.Millisecond, time.Millisecond)
	if err != nil {
		return nil, err
	}
	d.Run()
	defer d.Shutdown()
	select {
	case <-d.WaitOnline():
	case <-time.After(3 * time.Second):
		return nil, fmt.Errorf("destination did not come online")
	}
	slow := stats.Counter("dest=" + d.Key + ".unit=Metric.action=drop.reason=slow_conn")
	noconn := stats.Counter("dest=" + d.Key + ".unit=Metric.action=drop.reason=conn_down_no_spool")
	s0, n0 := slow.Count(), noconn.Count()
	for i, l := range c.Lines {
		d.In <- unhx(l)
		if c.PauseEvery > 0 && (i+1)%c.PauseEvery == 0 {
			time.Sleep(time.Millisecond)
		}
	}
	// quiescence: every line that was not counted as dropped must arrive (the periodic flush pushes the tail out)
	waitFor(8*time.Second, func() bool {
		drops := int(slow.Count() - s0 + noconn.Count() - n0)
		if c.Pickle {
			return countFrames(s.bytes()) >= len(c.Lines)-drops
		}
		return countNL(s.bytes()) >= len(c.Lines)-drops
	})
	time.Sleep(time.Duration(2*c.FlushMs+2) * time.Millisecond)
	return map[string]interface{}{"received": hx(s.bytes()), "slow_conn": slow.Count() - s0, "no_conn": noconn.Count() - n0}, nil
}

func init() {
	runners["C05"] = func(raw json.RawMessage) (interface{}, error) {
		var c c05Case
		if err := json.Unmarshal(raw, &c); err != nil {
			return nil, err
		}
		if c.Kind == "writer" {
			return runWriter(&c)
		}
		return runLive(&c)
	}
	_ = io.EOF
}
