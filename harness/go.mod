module verif/harness

go 1.13

require (
	github.com/BurntSushi/toml v0.0.0-00010101000000-000000000000
	github.com/golang/snappy v0.0.1
	github.com/grafana/carbon-relay-ng v0.0.0
	github.com/grafana/metrictank v1.0.1-0.20210114150051-52835b9a8775
	github.com/metrics20/go-metrics20 v0.0.0-20180821133656-717ed3a27bf9
	github.com/sirupsen/logrus v1.1.2-0.20181020050904-08e90462da34
	github.com/streadway/amqp v0.0.0-20170521212453-dfe15e360485
)

replace github.com/grafana/carbon-relay-ng => /repo

replace github.com/cespare/xxhash => github.com/cespare/xxhash/v2 v2.1.1

replace github.com/BurntSushi/toml v0.0.0-00010101000000-000000000000 => github.com/Dieterbe/toml v0.2.1-0.20181015092100-96f3d827bb6c
