// Correspondence harness: runs the real carbon-relay-ng code (from /repo's
// working tree, build tag verif) on cases read from stdin, one JSON object
// per line {"id":n,"case":{...}}, and prints {"id":n,"obs":{...}} per line.
package main

import (
	"bufio"
	"encoding/json"
	"fmt"
	"io/ioutil"
	"os"

	log "github.com/sirupsen/logrus"
)

type runner func(c json.RawMessage) (interface{}, error)

var runners = map[string]runner{}

type inLine struct {
	Id   int             `json:"id"`
	Case json.RawMessage `json:"case"`
}

type outLine struct {
	Id  int         `json:"id"`
	Obs interface{} `json:"obs,omitempty"`
	Err string      `json:"err,omitempty"`
}

func main() {
	if len(os.Args) < 2 {
		fmt.Fprintln(os.Stderr, "usage: harness <property>")
		os.Exit(2)
	}
	log.SetOutput(ioutil.Discard)
	log.SetLevel(log.PanicLevel)
	run, ok := runners[os.Args[1]]
	if !ok {
		fmt.Fprintln(os.Stderr, "unknown property", os.Args[1])
		os.Exit(2)
	}
	in := bufio.NewReaderSize(os.Stdin, 1<<20)
	out := bufio.NewWriter(os.Stdout)
	defer out.Flush()
	enc := json.NewEncoder(out)
	for {
		line, err := in.ReadBytes('\n')
		if len(line) > 1 {
			var il inLine
			if e := json.Unmarshal(line, &il); e != nil {
				fmt.Fprintln(os.Stderr, "bad input line:", e)
				os.Exit(2)
			}
			obs, e := safeRun(run, il.Case)
			ol := outLine{Id: il.Id, Obs: obs}
			if e != nil {
				ol.Err = e.Error()
			}
			enc.Encode(ol)
			out.Flush()
		}
		if err != nil {
			break
		}
	}
}

func safeRun(run runner, c json.RawMessage) (obs interface{}, err error) {
	defer func() {
		if r := recover(); r != nil {
			err = fmt.Errorf("PANIC: %v", r)
		}
	}()
	return run(c)
}
