// Correspondence harness: runs the real carbon-relay-ng code (from /repo's
// working tree, build tag verif) on cases read from stdin, one JSON object
// per line {"id":n,"case":{...}}, and prints {"id":n,"obs":{...}} per line.
package main

import (
	"bufio"
	"encoding/json"
	"fmt"
	"io/ioutil"
	stdlog "log"
	"os"
	"strconv"
	"strings"
	"time"

	log "github.com/sirupsen/logrus"
)

type runner func(c json.RawMessage) (interface{}, error)

var runners = map[string]runner{}

// childModes: the harness re-executes itself for cases that may take the whole process down
var childModes = map[string]func(){}

type inLine struct {
	Id   int             `json:"id"`
	Case json.RawMessage `json:"case"`
}

type outLine struct {
	Id  int         `json:"id"`
	Obs interface{} `json:"obs,omitempty"`
	Err string      `json:"err,omitempty"`
}

func main() {
	if len(os.Args) < 2 {
		fmt.Fprintln(os.Stderr, "usage: harness <property>")
		os.Exit(2)
	}
	log.SetOutput(ioutil.Discard)
	stdlog.SetOutput(ioutil.Discard)
	log.SetLevel(log.PanicLevel)
	if child, ok := childModes[os.Args[1]]; ok {
		child()
		return
	}
	run, ok := runners[os.Args[1]]
	if !ok {
		fmt.Fprintln(os.Stderr, "unknown property", os.Args[1])
		os.Exit(2)
	}
	in := bufio.NewReaderSize(os.Stdin, 1<<20)
	// the repository prints to stdout in places (e.g. DelAggregator): keep the protocol stream to ourselves
	realOut := os.Stdout
	if devnull, e := os.OpenFile(os.DevNull, os.O_WRONLY, 0); e == nil {
		os.Stdout = devnull
	}
	out := bufio.NewWriter(realOut)
	defer out.Flush()
	enc := json.NewEncoder(out)
	timeouts := 0
	for {
		line, err := in.ReadBytes('\n')
		if len(line) > 1 {
			var il inLine
			if e := json.Unmarshal(line, &il); e != nil {
				fmt.Fprintln(os.Stderr, "bad input line:", e)
				os.Exit(2)
			}
			obs, e := safeRun(run, il.Case)
			ol := outLine{Id: il.Id, Obs: obs}
			if e != nil {
				ol.Err = e.Error()
				if strings.HasPrefix(ol.Err, "TIMEOUT") {
					timeouts++
				}
			}
			enc.Encode(ol)
			out.Flush()
			if timeouts >= 3 {
				// the implementation hangs on these inputs: no point in waiting for every remaining case
				fmt.Fprintln(os.Stderr, "aborting after 3 timed-out cases")
				os.Exit(3)
			}
		}
		if err != nil {
			break
		}
	}
}

type runResult struct {
	obs interface{}
	err error
}

// safeRun runs one case with a watchdog: a case that panics or does not finish in time is
// reported as such (its goroutines are abandoned) and the run goes on.
func safeRun(run runner, c json.RawMessage) (interface{}, error) {
	limit := 20 * time.Second
	if v := os.Getenv("VERIF_CASE_TIMEOUT_S"); v != "" {
		if n, e := strconv.Atoi(v); e == nil {
			limit = time.Duration(n) * time.Second
		}
	}
	ch := make(chan runResult, 1)
	go func() {
		defer func() {
			if r := recover(); r != nil {
				ch <- runResult{nil, fmt.Errorf("PANIC: %v", r)}
			}
		}()
		o, e := run(c)
		ch <- runResult{o, e}
	}()
	select {
	case r := <-ch:
		return r.obs, r.err
	case <-time.After(limit):
		return nil, fmt.Errorf("TIMEOUT: case did not finish within %v (hang / deadlock)", limit)
	}
}
