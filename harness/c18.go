package main

import (
	"encoding/json"
	"fmt"
	"strings"
	"sync"
	"time"

	"github.com/grafana/carbon-relay-ng/aggregator"
	dest "github.com/grafana/carbon-relay-ng/destination"
	"github.com/grafana/carbon-relay-ng/matcher"
	"github.com/grafana/carbon-relay-ng/rewriter"
	"github.com/grafana/carbon-relay-ng/route"
	"github.com/grafana/carbon-relay-ng/table"
)

type adminOp struct {
	Op   string            `json:"op"` // addRoute delRoute addBlack delBlack addRw delRw addAgg delAgg addDest delDest
	Id   string            `json:"id,omitempty"`
	Key  string            `json:"key,omitempty"`
	Idx  int               `json:"idx,omitempty"`
	Opts map[string]string `json:"opts,omitempty"` // modRoute / modDest
}

type c18Case struct {
	Ops     []adminOp `json:"ops"`
	Traffic bool      `json:"traffic"` // dispatchers running while the operations are applied
}

type tableView struct {
	Black  []string            `json:"black"`
	Rw     []string            `json:"rw"`
	Aggs   []string            `json:"aggs"`
	Routes []string            `json:"routes"`
	Dests  map[string][]string `json:"dests"`
	// the six filter options of every route ("r:key") and destination ("d:key:id"), in the order the entities were created
	Filters [][]string `json:"filters"`
}

type heldSlice struct {
	what string
	ids  []string
	read func() []string
}

type verifDester interface {
	VerifDests() []*dest.Destination
}

func runC18(raw json.RawMessage) (interface{}, error) {
	aggInitOnce.Do(func() { aggregator.InitMetrics() })
	var c c18Case
	if err := json.Unmarshal(raw, &c); err != nil {
		return nil, err
	}
	tcase := tableCase{LL: "none", LM: "none"}
	env, err := buildTable(&tcase)
	if err != nil {
		return nil, err
	}
	tab := env.tab
	tab.DelRoute(env.sent.key) // the sentinel route of the shared builder is not part of this table
	prefix := fresh("x")
	readRw := func(s []rewriter.RW) []string {
		o := make([]string, len(s))
		for i, r := range s {
			o[i] = strings.TrimPrefix(r.Old, prefix)
		}
		return o
	}
	readBl := func(s []*matcher.Matcher) []string {
		o := make([]string, len(s))
		for i, r := range s {
			o[i] = strings.TrimPrefix(r.Prefix, prefix)
		}
		return o
	}
	readAgg := func(s []*aggregator.Aggregator) []string {
		o := make([]string, len(s))
		for i, r := range s {
			o[i] = strings.TrimPrefix(r.OutFmt, prefix)
		}
		return o
	}
	readRt := func(s []route.Route) []string {
		o := make([]string, len(s))
		for i, r := range s {
			o[i] = strings.TrimPrefix(r.Key(), prefix)
		}
		return o
	}
	destId := map[*dest.Destination]string{}
	var dmu sync.Mutex
	readDs := func(s []*dest.Destination) []string {
		dmu.Lock()
		defer dmu.Unlock()
		o := make([]string, len(s))
		for i, d := range s {
			o[i] = destId[d]
		}
		return o
	}
	var held []heldSlice
	hold := func() {
		rw, ag, bl, rt := tab.VerifConfigSlices()
		held = append(held,
			heldSlice{"rewriters", readRw(rw), func() []string { return readRw(rw) }},
			heldSlice{"aggregators", readAgg(ag), func() []string { return readAgg(ag) }},
			heldSlice{"blacklist", readBl(bl), func() []string { return readBl(bl) }},
			heldSlice{"routes", readRt(rt), func() []string { return readRt(rt) }})
		for _, r := range rt {
			if vd, ok := r.(verifDester); ok {
				ds := vd.VerifDests()
				k := r.Key()
				held = append(held, heldSlice{"dests of " + strings.TrimPrefix(k, prefix), readDs(ds), func() []string { return readDs(ds) }})
			}
		}
	}
	var created []string // entity names in creation order
	six := func(m matcher.Matcher) []string {
		return []string{m.Prefix, m.NotPrefix, m.Sub, m.NotSub, m.Regex, m.NotRegex}
	}
	view := func() tableView {
		rw, ag, bl, rt := tab.VerifConfigSlices()
		v := tableView{Black: readBl(bl), Rw: readRw(rw), Aggs: readAgg(ag), Routes: readRt(rt), Dests: map[string][]string{}}
		cur := map[string][]string{}
		for _, r := range rt {
			k := strings.TrimPrefix(r.Key(), prefix)
			cur["r:"+k] = six(r.Snapshot().Matcher)
			if vd, ok := r.(verifDester); ok {
				ds := vd.VerifDests()
				v.Dests[k] = readDs(ds)
				dmu.Lock()
				for _, d := range ds {
					cur["d:"+k+":"+destId[d]] = six(d.GetMatcher())
				}
				dmu.Unlock()
			}
		}
		for _, n := range created {
			if f, ok := cur[n]; ok {
				v.Filters = append(v.Filters, append([]string{n}, f...))
				delete(cur, n) // a name is listed once (ids are unique)
			}
		}
		return v
	}
	type opObs struct {
		Res   string    `json:"res"`
		View  tableView `json:"view"`
		Stale string    `json:"stale"` // "" or which previously published slice changed under a reader
	}
	var out []opObs
	ndest := 0
	for _, op := range c.Ops {
		hold()
		var err error
		switch op.Op {
		case "addRoute":
			m, _ := matcher.New("", "", "", "", "", "")
			var r route.Route
			r, err = route.NewSendAllMatch(prefix+op.Id, m, nil)
			if err == nil {
				tab.AddRoute(r)
				created = append(created, "r:"+op.Id)
			}
		case "delRoute":
			err = tab.DelRoute(prefix + op.Key)
		case "addBlack":
			m, _ := matcher.New(prefix+op.Id, "", "", "", "", "")
			tab.AddBlacklist(&m)
		case "delBlack":
			err = tab.DelBlacklist(op.Idx)
		case "addRw":
			var rw rewriter.RW
			rw, err = rewriter.New(prefix+op.Id, "n", "", -1)
			if err == nil {
				tab.AddRewriter(rw)
			}
		case "delRw":
			err = tab.DelRewriter(op.Idx)
		case "addAgg":
			m, _ := matcher.New("", "", "", "", "^never", "")
			var ag *aggregator.Aggregator
			ag, err = aggregator.NewMocked("sum", m, prefix+op.Id, false, 10, 10, false, tab.In, 0, time.Now, make(chan time.Time))
			if err == nil {
				tab.AddAggregator(ag)
			}
		case "delAgg":
			err = tab.DelAggregator(op.Idx)
		case "addDest":
			r := tab.GetRoute(prefix + op.Key)
			if r == nil {
				err = fmt.Errorf("no such route")
				break
			}
			ndest++
			m, _ := matcher.New("", "", "", "", "", "")
			var d *dest.Destination
			d, err = dest.New(prefix+op.Key, m, fmt.Sprintf("127.9.%d.%d:1", ndest/200, ndest%200+1), "/nonexistent-spool", false, false,
				time.Hour, time.Hour, 10, 1000, 10, 1000, 10, time.Hour, time.Millisecond, time.Millisecond)
			if err == nil {
				dmu.Lock()
				destId[d] = op.Id
				dmu.Unlock()
				r.(interface{ Add(*dest.Destination) }).Add(d)
				created = append(created, "d:"+op.Key+":"+op.Id)
			}
		case "delDest":
			err = tab.DelDestination(prefix+op.Key, op.Idx)
		case "modRoute":
			err = tab.UpdateRoute(prefix+op.Key, op.Opts)
		case "modDest":
			err = tab.UpdateDestination(prefix+op.Key, op.Idx, op.Opts)
		}
		o := opObs{Res: "ok", View: view()}
		if err != nil {
			o.Res = "err"
		}
		for _, h := range held {
			now := h.read()
			if strings.Join(now, ",") != strings.Join(h.ids, ",") {
				o.Stale = fmt.Sprintf("%s: published [%s] now reads [%s]", h.what, strings.Join(h.ids, ","), strings.Join(now, ","))
				break
			}
		}
		out = append(out, o)
	}
	tab.Shutdown()
	for _, a := range env.aggs {
		_ = a
	}
	return out, nil
}

func init() { runners["C18"] = runC18 }

var _ = table.New
