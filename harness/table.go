package main

import (
	"bytes"
	"encoding/json"
	"fmt"
	"math"
	"strconv"
	"strings"
	"sync"
	"sync/atomic"
	"time"

	"github.com/BurntSushi/toml"
	"github.com/grafana/carbon-relay-ng/aggregator"
	"github.com/grafana/carbon-relay-ng/cfg"
	dest "github.com/grafana/carbon-relay-ng/destination"
	"github.com/grafana/carbon-relay-ng/matcher"
	"github.com/grafana/carbon-relay-ng/rewriter"
	"github.com/grafana/carbon-relay-ng/route"
	"github.com/grafana/carbon-relay-ng/stats"
	"github.com/grafana/carbon-relay-ng/table"
)

type mSpec struct {
	Prefix    string `json:"prefix"`
	NotPrefix string `json:"notPrefix"`
	Sub       string `json:"sub"`
	NotSub    string `json:"notSub"`
	Regex     string `json:"regex"`
	NotRegex  string `json:"notRegex"`
}

func (m mSpec) build() (matcher.Matcher, error) {
	return matcher.New(m.Prefix, m.NotPrefix, m.Sub, m.NotSub, m.Regex, m.NotRegex)
}

type rwSpec struct {
	Old string `json:"old"`
	New string `json:"new"`
	Not string `json:"not"`
	Max int    `json:"max"`
}

type aggSpec struct {
	M        mSpec  `json:"m"`
	Fun      string `json:"fun"`
	OutFmt   string `json:"outfmt"`
	Cache    bool   `json:"cache"`
	Interval uint   `json:"interval"`
	Wait     uint   `json:"wait"`
	DropRaw  bool   `json:"dropraw"`
}

type destSpec struct {
	M    mSpec  `json:"m"`
	Addr string `json:"addr"`
}

type routeSpec struct {
	Kind  string     `json:"kind"` // capture | sendAllMatch | sendFirstMatch | consistentHashing
	M     mSpec      `json:"m"`
	Dests []destSpec `json:"dests"`
}

type tableEvent struct {
	T   string `json:"t"` // line | agg | tick | now | modroute
	B   string `json:"b,omitempty"`
	Now int64  `json:"now,omitempty"`
	Ri  int    `json:"ri,omitempty"` // modroute: index of the route whose filter is replaced at run time (Table.UpdateRoute)
	M   *mSpec `json:"m,omitempty"`
}

type tableCase struct {
	LL        string       `json:"ll"`
	LM        string       `json:"lm"`
	Order     bool         `json:"order"`
	ViaToml   bool         `json:"via_toml"`
	Blacklist []mSpec      `json:"blacklist"`
	Rewriters []rwSpec     `json:"rewriters"`
	Aggs      []aggSpec    `json:"aggs"`
	Routes    []routeSpec  `json:"routes"`
	Events    []tableEvent `json:"events"`
	Reuse     bool         `json:"reuse"`      // overwrite and reuse the input buffer after every Dispatch
	StallAggs bool         `json:"stall_aggs"` // keep the aggregators from draining their inbox until all lines were dispatched
	Recheck   bool         `json:"recheck"`
}

// recRoute wraps a real route (or nothing) and records every Dispatch argument.
type recRoute struct {
	key   string
	m     matcher.Matcher
	inner route.Route
	mu    sync.Mutex
	got   [][]byte // copies taken at call time
	refs  [][]byte // the slices as handed over (to detect later mutation)
	sig   chan struct{}
}

func (r *recRoute) Dispatch(buf []byte) {
	r.mu.Lock()
	r.got = append(r.got, append([]byte(nil), buf...))
	r.refs = append(r.refs, buf)
	r.mu.Unlock()
	if r.sig != nil && bytes.HasPrefix(buf, []byte("verif.sentinel")) {
		r.sig <- struct{}{}
		return
	}
	if r.inner != nil {
		r.inner.Dispatch(buf)
	}
}
func (r *recRoute) Match(s []byte) bool {
	if r.inner != nil {
		return r.inner.Match(s)
	}
	r.mu.Lock()
	m := r.m
	r.mu.Unlock()
	return m.Match(s)
}
func (r *recRoute) Snapshot() route.Snapshot {
	if r.inner != nil {
		return r.inner.Snapshot()
	}
	return route.Snapshot{Matcher: r.m, Type: "capture", Key: r.key}
}
func (r *recRoute) Key() string { return r.key }
func (r *recRoute) Flush() error {
	if r.inner != nil {
		return r.inner.Flush()
	}
	return nil
}
func (r *recRoute) Shutdown() error {
	if r.inner != nil {
		return r.inner.Shutdown()
	}
	return nil
}
func (r *recRoute) GetDestination(index int) (*dest.Destination, error) {
	if r.inner != nil {
		return r.inner.GetDestination(index)
	}
	return nil, fmt.Errorf("capture route")
}
func (r *recRoute) DelDestination(index int) error {
	if r.inner != nil {
		return r.inner.DelDestination(index)
	}
	return fmt.Errorf("capture route")
}
func (r *recRoute) UpdateDestination(index int, opts map[string]string) error {
	if r.inner != nil {
		return r.inner.UpdateDestination(index, opts)
	}
	return fmt.Errorf("capture route")
}
func (r *recRoute) Update(opts map[string]string) error {
	if r.inner != nil {
		return r.inner.Update(opts)
	}
	// a capture route changes its filter in place, like the real routes do (the table configuration is not republished)
	m, err := matcher.New(opts["prefix"], opts["notPrefix"], opts["sub"], opts["notSub"], opts["regex"], opts["notRegex"])
	if err != nil {
		return err
	}
	r.mu.Lock()
	r.m = m
	r.mu.Unlock()
	return nil
}

type tableEnv struct {
	stallOut chan []byte
	tab      *table.Table
	routes   []*recRoute
	dests    [][]*dest.Destination
	aggs     []*aggregator.Aggregator
	clock    int64
	ticks    []chan time.Time
	sent     *recRoute
}

var tblCounters = []string{"unit=Metric.direction=in", "unit=Err.type=invalid", "unit=Err.type=out_of_order",
	"unit=Metric.direction=blacklist", "unit=Metric.direction=unroutable"}

func tblCounts() [5]int64 {
	var o [5]int64
	for i, k := range tblCounters {
		o[i] = stats.Counter(k).Count()
	}
	return o
}

var aggInitOnce sync.Once

func buildTable(c *tableCase) (*tableEnv, error) {
	aggInitOnce.Do(func() { aggregator.InitMetrics() })
	var conf cfg.Config
	if c.ViaToml {
		conf = cfg.NewConfig()
		txt := ""
		if c.LL != "" {
			txt += fmt.Sprintf("validation_level_legacy = %q\n", c.LL)
		}
		if c.LM != "" {
			txt += fmt.Sprintf("validation_level_m20 = %q\n", c.LM)
		}
		txt += fmt.Sprintf("validate_order = %v\nbad_metrics_max_age = \"24h\"\n", c.Order)
		if _, err := toml.Decode(txt, &conf); err != nil {
			return nil, fmt.Errorf("CONFIG-REJECTED: %v", err)
		}
	} else {
		conf = cfg.NewConfig()
		if err := conf.Validation_level_legacy.UnmarshalText([]byte(c.LL)); err != nil {
			return nil, fmt.Errorf("CONFIG-REJECTED: %v", err)
		}
		if err := conf.Validation_level_m20.UnmarshalText([]byte(c.LM)); err != nil {
			return nil, fmt.Errorf("CONFIG-REJECTED: %v", err)
		}
		conf.Validate_order = c.Order
		conf.Bad_metrics_max_age = "24h"
	}
	tc, err := conf.TableConfig()
	if err != nil {
		return nil, err
	}
	env := &tableEnv{tab: table.New(tc)}
	for _, b := range c.Blacklist {
		m, err := b.build()
		if err != nil {
			return nil, fmt.Errorf("bad blacklist matcher: %v", err)
		}
		env.tab.AddBlacklist(&m)
	}
	for _, r := range c.Rewriters {
		rw, err := rewriter.New(r.Old, r.New, r.Not, r.Max)
		if err != nil {
			return nil, fmt.Errorf("REWRITER-REJECTED: %v", err)
		}
		env.tab.AddRewriter(rw)
	}
	for _, a := range c.Aggs {
		m, err := a.M.build()
		if err != nil {
			return nil, fmt.Errorf("bad agg matcher: %v", err)
		}
		tick := make(chan time.Time)
		env.ticks = append(env.ticks, tick)
		out, inBuf := env.tab.In, 0
		if c.StallAggs {
			if env.stallOut == nil {
				env.stallOut = make(chan []byte)
			}
			out, inBuf = env.stallOut, 10000
		}
		ag, err := aggregator.NewMocked(a.Fun, m, a.OutFmt, a.Cache, a.Interval, a.Wait, a.DropRaw, out, inBuf,
			func() time.Time { return time.Unix(atomic.LoadInt64(&env.clock), 0) }, tick)
		if err != nil {
			return nil, fmt.Errorf("bad aggregator: %v", err)
		}
		env.aggs = append(env.aggs, ag)
		env.tab.AddAggregator(ag)
	}
	for _, r := range c.Routes {
		m, err := r.M.build()
		if err != nil {
			return nil, fmt.Errorf("bad route matcher: %v", err)
		}
		key := fresh("rt")
		rr := &recRoute{key: key, m: m}
		var ds []*dest.Destination
		if r.Kind != "capture" {
			for _, d := range r.Dests {
				dm, err := d.M.build()
				if err != nil {
					return nil, fmt.Errorf("bad dest matcher: %v", err)
				}
				dd, err := dest.New(key, dm, d.Addr, "/nonexistent-spool", false, false,
					time.Hour, time.Hour, 10, 1000, 10, 1000, 10, time.Hour, time.Millisecond, time.Millisecond)
				if err != nil {
					return nil, err
				}
				ds = append(ds, dd)
			}
			own := append([]*dest.Destination(nil), ds...)
			switch r.Kind {
			case "sendAllMatch":
				rr.inner, err = route.NewSendAllMatch(key, m, own)
			case "sendFirstMatch":
				rr.inner, err = route.NewSendFirstMatch(key, m, own)
			case "consistentHashing":
				rr.inner, err = route.NewConsistentHashing(key, m, own)
			default:
				return nil, fmt.Errorf("unknown route kind %q", r.Kind)
			}
			if err != nil {
				return nil, err
			}
		}
		env.routes = append(env.routes, rr)
		env.dests = append(env.dests, ds)
		env.tab.AddRoute(rr)
	}
	// sentinel route (barrier for aggregate output); never matches a generated name
	sm, _ := matcher.New("verif.sentinel", "", "", "", "", "")
	env.sent = &recRoute{key: fresh("sentinel"), m: sm, sig: make(chan struct{}, 4)}
	env.tab.AddRoute(env.sent)
	return env, nil
}

func (e *tableEnv) close() {
	for _, a := range e.aggs {
		a.Shutdown()
	}
	for _, r := range e.routes {
		r.Shutdown()
	}
}

func (e *tableEnv) destCounts() [][]int64 {
	out := make([][]int64, len(e.dests))
	for i, ds := range e.dests {
		out[i] = make([]int64, len(ds))
		for j, d := range ds {
			out[i][j] = destDropNoConn(d.Key)
		}
	}
	return out
}

func (e *tableEnv) aggCounts() []int64 {
	out := make([]int64, len(e.aggs))
	for i, a := range e.aggs {
		out[i] = stats.Counter("unit=Metric.direction=in.aggregator=" + a.Key).Count()
	}
	return out
}

// barrier: every goroutine that might still be working on earlier events has finished
func (e *tableEnv) barrier(aggOut bool) {
	for _, a := range e.aggs {
		a.Snapshot()
	}
	if aggOut {
		e.tab.In <- []byte("verif.sentinel 0 0")
		<-e.sent.sig
	}
	for _, ds := range e.dests {
		for _, d := range ds {
			d.Flush()
		}
	}
}

type evObs struct {
	Cnt     [5]int64   `json:"cnt"`
	Bad     *[3]string `json:"bad"`    // key(hex), msg(hex), err
	NewBad  int        `json:"newbad"` // number of bad records that appeared during this event
	Routes  [][]string `json:"routes"` // [routeIdx, linehex]
	Dests   [][3]int64 `json:"dests"`  // route, dest, delta
	Aggs    []int64    `json:"aggs"`
	ValOk   bool       `json:"val_ok"`
	TsOk    bool       `json:"ts_ok"`
	Ts32    uint32     `json:"ts32"`
	Bits    string     `json:"bits"`    // float64 bits of the value token (decimal), oracle
	Mutated bool       `json:"mutated"` // a delivered slice changed after the hand-off
}

func oracleFloats(line []byte) (bool, bool, uint32, string) {
	f := bytes.Fields(line)
	if len(f) != 3 {
		return false, false, 0, "0"
	}
	v, e1 := strconv.ParseFloat(string(f[1]), 64)
	ts, e2 := strconv.ParseFloat(string(f[2]), 64)
	return e1 == nil, e2 == nil, uint32(ts), strconv.FormatUint(math.Float64bits(v), 10)
}

func runTable(raw json.RawMessage) (interface{}, error) {
	var c tableCase
	if err := json.Unmarshal(raw, &c); err != nil {
		return nil, err
	}
	env, err := buildTable(&c)
	if err != nil {
		if strings.HasPrefix(err.Error(), "CONFIG-REJECTED") || strings.HasPrefix(err.Error(), "REWRITER-REJECTED") {
			return map[string]interface{}{"rejected": strings.SplitN(err.Error(), ":", 2)[0]}, nil
		}
		return nil, err
	}
	defer env.close()
	var out []evObs
	scratch := make([]byte, 0, 256)
	if c.StallAggs {
		atomic.StoreInt64(&env.clock, 1000)
	}
	for evi, ev := range c.Events {
		var o evObs
		start := time.Now()
		c0, d0, a0 := tblCounts(), env.destCounts(), env.aggCounts()
		nrec := make([]int, len(env.routes))
		for i, r := range env.routes {
			nrec[i] = len(r.got)
		}
		line := unhx(ev.B)
		switch ev.T {
		case "line":
			o.ValOk, o.TsOk, o.Ts32, o.Bits = oracleFloats(line)
			if c.Reuse {
				scratch = append(scratch[:0], line...)
				env.tab.Dispatch(scratch)
				for i := range scratch {
					scratch[i] = '#'
				}
			} else {
				env.tab.Dispatch(line)
			}
			if !c.StallAggs {
				env.barrier(false)
			}
		case "agg":
			env.tab.DispatchAggregate(line)
			env.barrier(false)
		case "tick":
			atomic.StoreInt64(&env.clock, ev.Now)
			for _, t := range env.ticks {
				t <- time.Unix(ev.Now, 0)
			}
			env.barrier(true)
		case "now":
			atomic.StoreInt64(&env.clock, ev.Now)
		case "modroute":
			if ev.M != nil && ev.Ri >= 0 && ev.Ri < len(env.routes) {
				opts := map[string]string{"prefix": ev.M.Prefix, "notPrefix": ev.M.NotPrefix, "sub": ev.M.Sub, "notSub": ev.M.NotSub,
					"regex": ev.M.Regex, "notRegex": ev.M.NotRegex}
				if err := env.tab.UpdateRoute(env.routes[ev.Ri].key, opts); err != nil {
					return nil, fmt.Errorf("modroute: %v", err)
				}
			}
			env.barrier(false)
		}
		if c.StallAggs && evi == 0 {
			// the first event is the warm-up point: once it is in its bucket, a tick makes every
			// aggregator block in Flush on its (undrained) output; later points pile up in the inbox
			for _, a := range env.aggs {
				ag := a
				waitFor(10*time.Second, func() bool { return ag.VerifInLen() == 0 })
				a.Snapshot()
			}
			for _, t := range env.ticks {
				t <- time.Unix(100000, 0)
			}
			atomic.StoreInt64(&env.clock, 200000)
		}
		c1, d1, a1 := tblCounts(), env.destCounts(), env.aggCounts()
		for i := range c1 {
			o.Cnt[i] = c1[i] - c0[i]
		}
		for i := range d1 {
			for j := range d1[i] {
				if d1[i][j] != d0[i][j] {
					o.Dests = append(o.Dests, [3]int64{int64(i), int64(j), d1[i][j] - d0[i][j]})
				}
			}
		}
		o.Aggs = make([]int64, len(a1))
		for i := range a1 {
			o.Aggs[i] = a1[i] - a0[i]
		}
		o.Routes = [][]string{}
		for i, r := range env.routes {
			r.mu.Lock()
			for _, g := range r.got[nrec[i]:] {
				if bytes.HasPrefix(g, []byte("verif.sentinel")) {
					continue
				}
				o.Routes = append(o.Routes, []string{strconv.Itoa(i), hx(g)})
			}
			r.mu.Unlock()
		}
		// bad-metrics report: written by a goroutine, so poll for it when a rejection was counted
		if o.Cnt[1] > 0 || o.Cnt[2] > 0 {
			var rec *[3]string
			waitFor(3*time.Second, func() bool {
				for _, r := range env.tab.Bad().Get(time.Hour) {
					if !r.LastSeen.Before(start) && r.LastMsg == string(line) {
						rec = &[3]string{hx([]byte(r.Metric)), hx([]byte(r.LastMsg)), r.LastErr}
						return true
					}
				}
				return false
			})
			o.Bad = rec
		}
		for _, r := range env.tab.Bad().Get(time.Hour) {
			if !r.LastSeen.Before(start) {
				o.NewBad++
			}
		}
		out = append(out, o)
	}
	var aggKeys []string
	if c.StallAggs {
		// let the aggregators go on: drain their output, flush everything, collect the emitted series names
		var mu sync.Mutex
		seen := map[string]bool{}
		done := make(chan struct{})
		go func() {
			for l := range env.stallOut {
				if i := bytes.IndexByte(l, ' '); i > 0 {
					mu.Lock()
					seen[string(l[:i])] = true
					mu.Unlock()
				}
			}
			close(done)
		}()
		for _, a := range env.aggs {
			ag := a
			waitFor(10*time.Second, func() bool { return ag.VerifInLen() == 0 })
			a.Snapshot()
		}
		for _, t := range env.ticks {
			t <- time.Unix(10000000, 0)
		}
		for _, a := range env.aggs {
			a.Snapshot()
		}
		// the flushed aggregates travel through table.In and the routes: wait until no new series has shown up for a while
		// (a fixed 1 ms was not enough on a loaded machine: a series was missing from the observation once)
		lastN, since := -1, time.Now()
		for deadline := time.Now().Add(3 * time.Second); time.Now().Before(deadline); time.Sleep(2 * time.Millisecond) {
			mu.Lock()
			n := len(seen)
			mu.Unlock()
			if n != lastN {
				lastN, since = n, time.Now()
			} else if time.Since(since) > 40*time.Millisecond {
				break
			}
		}
		mu.Lock()
		for k := range seen {
			aggKeys = append(aggKeys, hx([]byte(k)))
		}
		mu.Unlock()
	}
	// isolation: every slice handed to a route must still hold what it held at hand-off
	mutated := false
	for _, r := range env.routes {
		for i := range r.got {
			if !bytes.Equal(r.got[i], r.refs[i]) {
				mutated = true
			}
		}
	}
	return map[string]interface{}{"events": out, "mutated": mutated, "agg_keys": aggKeys}, nil
}

func init() {
	runners["TABLE"] = runTable
}
